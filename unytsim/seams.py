"""Seams the simulator owns: unyt's lru memo tables, sympy's global cache,
unit-system memo maps.  All reached from outside by rebinding module globals;
no hook in /repo is needed.
"""

import functools
import sys


def discover_lru():
    """Return {qualified name: (function object, [(namespace dict, key)...])}.

    Found by introspection (anything in a unyt module with cache_info and
    __wrapped__), so a memo table added later is picked up too.
    """
    found = {}
    mods = [m for n, m in sorted(sys.modules.items()) if n.split(".")[0] == "unyt" and m]
    for m in mods:
        for k, v in list(vars(m).items()):
            if hasattr(v, "cache_info") and hasattr(v, "__wrapped__"):
                name = f"{v.__module__}.{v.__wrapped__.__name__}"
                ent = found.setdefault(name, (v, []))
                if ent[0] is v:
                    ent[1].append((vars(m), k))
    return found


def lru_functions():
    return [v[0] for _, v in sorted(discover_lru().items())]


def _is_plain_lru(f):
    return type(f).__name__ == "_lru_cache_wrapper"


def rewrap_lru(maxsize):
    """Give every unyt lru memo another capacity, using the real
    functools.lru_cache.  A plain lru wrapper is re-created around its
    __wrapped__ function and rebound everywhere the old one was bound
    (module globals and unyt_array._ufunc_registry).  A hand-written
    wrapper that keeps an lru wrapper in a closure cell (the registry-aware
    rule cache) keeps its identity: the cell is re-pointed at a new lru
    wrapper of the requested capacity around the same inner function."""
    import unyt.array as ua

    n = 0
    for name, (old, sites) in sorted(discover_lru().items()):
        if _is_plain_lru(old):
            new = functools.lru_cache(maxsize=maxsize, typed=False)(old.__wrapped__)
            for ns, k in sites:
                ns[k] = new
            reg = ua.unyt_array._ufunc_registry
            for uf, rule in list(reg.items()):
                if rule is old:
                    reg[uf] = new
            n += 1
            continue
        for cell in getattr(old, "__closure__", None) or ():
            try:
                inner = cell.cell_contents
            except ValueError:
                continue
            if _is_plain_lru(inner):
                new = functools.lru_cache(maxsize=maxsize, typed=False)(inner.__wrapped__)
                cell.cell_contents = new
                old.cache_info = new.cache_info
                old.cache_clear = new.cache_clear
                n += 1
                break
    return n


def clear_lru(which=None):
    """cache_clear() all (or the named subset of) unyt lru memo tables."""
    n = 0
    for name, (f, _) in sorted(discover_lru().items()):
        if which is None or name.rsplit(".", 1)[1] in which:
            f.cache_clear()
            n += 1
    return n


def lru_sizes():
    return {
        name.rsplit(".", 1)[1]: f.cache_info().currsize
        for name, (f, _) in sorted(discover_lru().items())
    }


def lru_stats():
    out = {}
    for name, (f, _) in sorted(discover_lru().items()):
        ci = f.cache_info()
        out[name.rsplit(".", 1)[1]] = (ci.hits, ci.misses, ci.currsize)
    return out


def clear_sympy_cache():
    from sympy.core.cache import clear_cache

    clear_cache()
