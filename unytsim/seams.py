"""Seams the simulator owns: unyt's lru memo tables, sympy's global cache,
unit-system memo maps.  All reached from outside by rebinding module globals;
no hook in /repo is needed.
"""

import functools
import sys


def discover_lru():
    """Return {qualified name: (function object, [(namespace dict, key)...])}.

    Found by introspection (anything in a unyt module with cache_info and
    __wrapped__), so a memo table added later is picked up too.
    """
    found = {}
    mods = [m for n, m in sorted(sys.modules.items()) if n.split(".")[0] == "unyt" and m]
    for m in mods:
        for k, v in list(vars(m).items()):
            if hasattr(v, "cache_info") and hasattr(v, "__wrapped__"):
                name = f"{v.__module__}.{v.__wrapped__.__name__}"
                ent = found.setdefault(name, (v, []))
                if ent[0] is v:
                    ent[1].append((vars(m), k))
    return found


def lru_functions():
    return [v[0] for _, v in sorted(discover_lru().items())]


def rewrap_lru(maxsize):
    """Re-wrap every unyt lru memo with the real functools.lru_cache at
    another capacity and rebind it everywhere the old wrapper was bound
    (module globals and unyt_array._ufunc_registry)."""
    import unyt.array as ua

    n = 0
    for name, (old, sites) in sorted(discover_lru().items()):
        new = functools.lru_cache(maxsize=maxsize, typed=False)(old.__wrapped__)
        for ns, k in sites:
            ns[k] = new
        reg = ua.unyt_array._ufunc_registry
        for uf, rule in list(reg.items()):
            if rule is old:
                reg[uf] = new
        n += 1
    return n


def clear_lru(which=None):
    """cache_clear() all (or the named subset of) unyt lru memo tables."""
    n = 0
    for name, (f, _) in sorted(discover_lru().items()):
        if which is None or name.rsplit(".", 1)[1] in which:
            f.cache_clear()
            n += 1
    return n


def lru_sizes():
    return {
        name.rsplit(".", 1)[1]: f.cache_info().currsize
        for name, (f, _) in sorted(discover_lru().items())
    }


def lru_stats():
    out = {}
    for name, (f, _) in sorted(discover_lru().items()):
        ci = f.cache_info()
        out[name.rsplit(".", 1)[1]] = (ci.hits, ci.misses, ci.currsize)
    return out


def clear_sympy_cache():
    from sympy.core.cache import clear_cache

    clear_cache()
