"""Delta-debugging of a failing op list (every candidate in a fresh pristine
child), then configuration simplification.  A candidate is accepted only if
the *same signature* fires for the same property."""

from . import runner


def _fails(spec, ops, cfg, sig, timeout):
    s = dict(spec)
    s["ops"] = ops
    s["cfg"] = cfg
    res = runner.run_one(s, timeout)
    if "harness_error" in res:
        return None
    for v in res["violations"]:
        if v["sig"] == sig:
            return v
    return None


def _first_failing(spec, cands, cfg, sig, timeout):
    """Evaluate all candidates on the pool; index of the first (in list
    order, hence deterministic) that still shows the signature, or None."""
    specs = []
    for c in cands:
        s = dict(spec)
        s["ops"] = c
        s["cfg"] = cfg
        specs.append(s)
    results = runner.map_specs(specs, timeout)
    for i, res in enumerate(results):
        if "harness_error" in res:
            continue
        if any(v["sig"] == sig for v in res["violations"]):
            return i
    return None


def ddmin(spec, ops, cfg, sig, timeout=120.0, max_tests=600):
    tests = 0
    n = 2
    ops = list(ops)
    while len(ops) >= 2 and tests < max_tests:
        chunk = max(1, len(ops) // n)
        cands = []
        for i in range(0, len(ops), chunk):
            cand = ops[:i] + ops[i + chunk:]
            if cand:
                cands.append(cand)
        tests += len(cands)
        j = _first_failing(spec, cands, cfg, sig, timeout)
        if j is not None:
            ops = cands[j]
            n = max(n - 1, 2)
        else:
            if chunk == 1:
                break
            n = min(len(ops), n * 2)
    return ops, tests


SIMPLE_CFG = {"lru": 128}


def simplify_values(spec, ops, cfg, sig, timeout):
    """Argument pass: try simpler literals one field at a time."""
    tests = 0
    ops = [dict(o) for o in ops]
    for i, o in enumerate(ops):
        for field, simple in (("v", 1.0), ("value", 2.0), ("scale", 2.0), ("h", 0),
                              ("prefixable", True), ("store", True), ("how", "to"), ("form", "tuple")):
            if field in o and o[field] != simple and not (field == "store" and o[field] is True):
                cand = [dict(x) for x in ops]
                cand[i][field] = simple
                tests += 1
                if _fails(spec, cand, cfg, sig, timeout):
                    ops = cand
                    o = ops[i]
        for field in ("offset", "explicit_registry", "pick"):
            if field in o:
                cand = [dict(x) for x in ops]
                del cand[i][field]
                tests += 1
                if _fails(spec, cand, cfg, sig, timeout):
                    ops = cand
                    o = ops[i]
    return ops, tests


def minimise(res, violation, timeout=120.0):
    """res: the failing run's result.  Returns (ops, cfg, violation, stats)."""
    spec = {"prop": res["prop"], "seed": res["seed"], "run": res["run"]}
    sig = violation["sig"]
    ops = res["ops"]
    cfg = dict(res["cfg"])
    stats = {"ops_before": len(ops), "tests": 0, "reproduced": False}
    v0 = _fails(spec, ops, cfg, sig, timeout)
    stats["tests"] += 1
    if v0 is None:
        # replaying the recorded ops does not reproduce: a harness defect
        stats["note"] = "recorded op list did not reproduce"
        return ops, cfg, violation, stats
    stats["reproduced"] = True
    ops, t = ddmin(spec, ops, cfg, sig, timeout)
    stats["tests"] += t
    for k, v in SIMPLE_CFG.items():
        if cfg.get(k) != v:
            c2 = dict(cfg)
            c2[k] = v
            stats["tests"] += 1
            if _fails(spec, ops, c2, sig, timeout):
                cfg = c2
    ops, t = simplify_values(spec, ops, cfg, sig, timeout)
    stats["tests"] += t
    ops, t = ddmin(spec, ops, cfg, sig, timeout, max_tests=100)
    stats["tests"] += t
    if res["prop"] == "C11":
        # drop registry edits one at a time
        while True:
            cands = []
            for i, o in enumerate(ops):
                if o.get("k") == "reg" and o.get("edits"):
                    for j in range(len(o["edits"])):
                        c = [dict(x) for x in ops]
                        c[i]["edits"] = o["edits"][:j] + o["edits"][j + 1:]
                        cands.append(c)
            if not cands:
                break
            stats["tests"] += len(cands)
            j = _first_failing(spec, cands, cfg, sig, timeout)
            if j is None:
                break
            ops = cands[j]
    if res["prop"] == "C18":
        from . import c18sim

        while True:
            cands = c18sim.drop_entry_candidates(ops)
            if not cands:
                break
            stats["tests"] += len(cands)
            j = _first_failing(spec, cands, cfg, sig, timeout)
            if j is None:
                break
            ops = cands[j]
    v = _fails(spec, ops, cfg, sig, timeout) or v0
    stats["ops_after"] = len(ops)
    return ops, cfg, v, stats
