"""Registry world shared by C12 and C13: nodes (registries), their reference
models, a small heap of units/quantities, operation records and their
interpreter, raw-table audits, and the cold-twin service.

The same `apply_op` runs in the warm (history-laden) world of a run child and
in the cold world that `cold_eval` builds from nothing but the models and the
descriptions of the operands of one call.
"""

import copy
import pickle
import traceback
import warnings

import numpy as np
import sympy

from . import seams
from .core import HarnessError

OPERAND_FIELDS = ("x", "y", "u")
HEAP_MAX = 6
VERIF_DIR = __file__.rsplit("/", 2)[0]


class Skip(Exception):
    """Precondition of an op record not met: skipped and counted."""


def _U():
    import unyt
    import unyt._unit_lookup_table as lt
    import unyt.dimensions as dims
    import unyt.unit_object as uo
    import unyt.unit_registry as ur
    import unyt.unit_systems as us

    return unyt, lt, dims, uo, ur, us


# ------------------------------------------------------------- sympy wire


_NS = None


def _ns():
    global _NS
    if _NS is None:
        unyt, lt, dims, uo, ur, us = _U()
        by_name = {str(d): d for d in dims.base_dimensions if isinstance(d, sympy.Symbol)}
        ns = dict(vars(sympy))

        def Symbol(name, **kw):
            d = by_name.get(name)
            if d is not None:
                return d
            return sympy.Symbol(name, **kw)

        ns["Symbol"] = Symbol
        _NS = ns
    return _NS


def from_srepr(s):
    return eval(s, _ns())  # noqa: S307 - strings produced by this harness only


def srepr(e):
    return sympy.srepr(sympy.sympify(e))


# ------------------------------------------------------------------ model


def entry_eq(a, b):
    return (
        float(a[0]) == float(b[0])
        and (a[1] is b[1] or a[1] == b[1])
        and float(a[2]) == float(b[2])
        and bool(a[4]) == bool(b[4])
    )


def entry_wire(e):
    return (float(e[0]), srepr(e[1]), float(e[2]), e[3], bool(e[4]))


def entry_unwire(w):
    return (w[0], from_srepr(w[1]), w[2], w[3], w[4])


def entry_plain(e):
    return [float(e[0]), str(e[1]), float(e[2]), bool(e[4])]


def derive(key, model):
    """The entry a fresh registry with contents `model` implies for the
    non-explicit name `key` (SI prefix + prefixable explicit base), or None."""
    unyt, lt, dims, uo, ur, us = _U()
    if not key:
        return None
    prefix = "da" if key[:2] == "da" else key[0]
    if prefix not in lt.unit_prefixes:
        return None
    base = key[len(prefix):]
    e = model.get(base)
    if e is None or not e[4]:
        return None
    return (e[0] * lt.unit_prefixes[prefix][0], e[1], e[2], None, False)


class Node:
    def __init__(self, nid, kind, handle, model, usys):
        self.id = nid
        self.kind = kind
        self.handles = [handle]
        self.model = model
        self.usys = usys

    @property
    def reg(self):
        return self.handles[0]

    def wire(self):
        unyt, lt, dims, uo, ur, us = _U()
        base = lt.default_unit_symbol_lut
        sets = {}
        for k, v in self.model.items():
            d = base.get(k)
            if d is not None and (v is d or entry_eq(v, d)):
                continue
            sets[k] = entry_wire(v)
        dels = sorted(k for k in base if k not in self.model)
        return {"id": self.id, "kind": self.kind, "usys": self.usys, "set": sets, "del": dels,
                "readonly": type(self.reg).__name__ == "_NonModifiableUnitRegistry"}


def build_registry(wire):
    """A fresh registry holding exactly the contents a node model describes."""
    unyt, lt, dims, uo, ur, us = _U()
    if wire["kind"] == "default":
        reg = ur.default_unit_registry
        for k, w in wire["set"].items():
            reg.lut[k] = entry_unwire(w)
        if wire["set"]:
            # a fresh registry with these contents has no strings cached
            # from the import-time definitions
            reg._unit_object_cache.clear()
        model = dict(lt.default_unit_symbol_lut)
        for k, w in wire["set"].items():
            model[k] = reg.lut[k]
        return reg, model
    lut = dict(lt.default_unit_symbol_lut)
    for k in wire["del"]:
        del lut[k]
    for k, w in wire["set"].items():
        lut[k] = entry_unwire(w)
    model = dict(lut)
    cls = ur._NonModifiableUnitRegistry if wire.get("readonly") else ur.UnitRegistry
    reg = cls(lut=lut, add_default_symbols=False, unit_system=wire["usys"])
    return reg, model


# ------------------------------------------------------------------ world


class World:
    def __init__(self, cold=False):
        unyt, lt, dims, uo, ur, us = _U()
        self.cold = cold
        self.nodes = []
        self.heap = []
        self.heap_meta = []  # creation snapshots (oracle 4)
        self.cold_operands = {}
        self.probes = {}
        self.last_stored = 0
        # user-defined unit systems: name, node id, base units, later __setitem__s (their reference model)
        self.usys_defs = []
        if not cold:
            self.nodes.append(
                Node(0, "default", ur.default_unit_registry, dict(lt.default_unit_symbol_lut), "mks")
            )

    # -- lookups
    def node(self, op, field="node"):
        if not self.nodes:
            raise Skip
        if self.cold:
            for n in self.nodes:
                if n.id == op[field]:
                    return n
            raise Skip
        return self.nodes[op[field] % len(self.nodes)]

    def handle(self, op, node=None):
        node = node or self.node(op)
        return node.handles[op.get("h", 0) % len(node.handles)]

    def operand(self, op, field):
        if self.cold:
            if field not in self.cold_operands:
                raise Skip
            return self.cold_operands[field]
        if not self.heap:
            raise Skip
        return self.heap[op[field] % len(self.heap)]

    def slot(self, op, field):
        return op[field] % len(self.heap)

    def node_of(self, reg):
        for n in self.nodes:
            for h in n.handles:
                if h is reg:
                    return n.id
        for n in self.nodes:
            if getattr(reg, "lut", None) is n.reg.lut:
                return n.id  # a shallow copy: same node by documented construction
        if reg is _U()[4].default_unit_registry:
            # the default registry is node 0 in every world, also in a cold world that was not sent node 0
            # (degC - degC of a custom registry returns the module-level delta_degC, bound to the default one)
            return 0
        return "other"

    def probe(self, name, n=1):
        self.probes[name] = self.probes.get(name, 0) + n

    # -- heap
    def store(self, obj):
        unyt, lt, dims, uo, ur, us = _U()
        if self.cold or obj is None:
            return
        if not isinstance(obj, (uo.Unit, unyt.unyt_array)):
            return
        reg = obj.units.registry
        where = self.node_of(reg)
        if where == "other":
            return
        if isinstance(obj, unyt.unyt_array) and obj.size > 16:
            return
        if any(obj is o for o in self.heap):
            # an in-place call returns its target: storing it again would put
            # one object in two slots, and the next in-place call on one slot
            # would look like an unexplained change of the other
            return
        meta = unit_snapshot(obj.units)
        if len(self.heap) < HEAP_MAX:
            self.heap.append(obj)
            self.heap_meta.append(meta)
            self.last_stored = len(self.heap) - 1
        else:
            i = self._next_victim = (getattr(self, "_next_victim", -1) + 1) % HEAP_MAX
            self.heap[i] = obj
            self.heap_meta[i] = meta
            self.last_stored = i

    def drop_node_objects(self, node):
        # unit systems bound to the registry object that is being replaced go with it
        self.usys_defs = [d for d in self.usys_defs if d["node"] != node.id]
        keep = [
            (o, m)
            for o, m in zip(self.heap, self.heap_meta)
            if self.node_of(o.units.registry) != node.id
        ]
        self.heap = [o for o, _ in keep]
        self.heap_meta = [m for _, m in keep]


def unit_snapshot(u):
    return (u, float(u.base_value), float(u.base_offset), u.dimensions, str(u.expr))


# --------------------------------------------------------------- describe


def describe(x, w):
    unyt, lt, dims, uo, ur, us = _U()
    if x is None:
        return None
    if isinstance(x, uo.Unit):
        return {
            "k": "unit",
            "expr": str(x.expr),
            "bv": float(x.base_value),
            "off": float(x.base_offset),
            "dims": str(x.dimensions),
            "node": w.node_of(x.registry),
        }
    if isinstance(x, unyt.unyt_array):
        return {
            "k": "arr",
            "cls": type(x).__name__,
            "shape": list(x.shape),
            "dtype": str(x.dtype),
            "data": _tolist(np.asarray(x.d)),
            "u": describe(x.units, w),
        }
    if isinstance(x, np.ndarray):
        return {"k": "nd", "shape": list(x.shape), "dtype": str(x.dtype), "data": _tolist(x)}
    if isinstance(x, (bool, np.bool_)):
        return {"k": "bool", "v": bool(x)}
    if isinstance(x, (int, np.integer)):
        return {"k": "int", "v": int(x)}
    if isinstance(x, (float, np.floating)):
        return {"k": "num", "v": float(x), "dtype": "float64"}
    if isinstance(x, (complex, np.complexfloating)):
        return {"k": "cnum", "v": [float(x.real), float(x.imag)]}
    if isinstance(x, str):
        return {"k": "str", "v": x}
    if isinstance(x, (tuple, list)):
        return {"k": "seq", "items": [describe(i, w) for i in x]}
    if isinstance(x, dict):
        return {"k": "map", "items": {str(k): describe(v, w) for k, v in sorted(x.items())}}
    if isinstance(x, sympy.Basic):
        return {"k": "sym", "v": str(x)}
    return {"k": "repr", "v": repr(x)}


def _tolist(a):
    a = np.asarray(a).ravel()
    if a.dtype.kind == "c":
        return [[float(v.real), float(v.imag)] for v in a]
    if a.dtype.kind == "b":
        return [bool(v) for v in a]
    if a.dtype.kind in "iu":
        return [int(v) for v in a]
    return [float(v) for v in a]


def wire_operand(x, w):
    unyt, lt, dims, uo, ur, us = _U()
    if isinstance(x, uo.Unit):
        where = w.node_of(x.registry)
        alias = False
        return {
            "k": "unit",
            "expr_s": srepr(x.expr),
            "bv": float(x.base_value),
            "off": float(x.base_offset),
            "dims_s": srepr(x.dimensions),
            "node": where,
            "alias": alias,
        }
    if isinstance(x, unyt.unyt_array):
        a = np.ascontiguousarray(np.asarray(x.d))
        return {
            "k": "arr",
            "cls": type(x).__name__,
            "shape": list(x.shape),
            "dtype": str(a.dtype),
            "raw": a.tobytes(),
            "u": wire_operand(x.units, w),
            "name": x.name,
        }
    raise HarnessError(f"cannot wire operand {type(x)}")


def rebuild_operand(d, w):
    unyt, lt, dims, uo, ur, us = _U()
    if d["k"] == "unit":
        reg = None
        for n in w.nodes:
            if n.id == d["node"]:
                reg = n.reg
        if reg is None:
            raise Skip
        if d["alias"]:
            reg = copy.copy(reg)
        return uo.Unit(
            from_srepr(d["expr_s"]),
            base_value=d["bv"],
            base_offset=d["off"],
            dimensions=from_srepr(d["dims_s"]),
            registry=reg,
        )
    if d["k"] == "arr":
        u = rebuild_operand(d["u"], w)
        a = np.frombuffer(d["raw"], dtype=d["dtype"]).reshape(d["shape"]).copy()
        cls = getattr(unyt, d["cls"])
        return cls(a, u, bypass_validation=True, name=d["name"])
    raise HarnessError("bad operand wire")


# ------------------------------------------------------------- comparison

_EPS = {"float16": 2.0**-10, "float32": 2.0**-23, "float64": 2.0**-52,
        "complex64": 2.0**-23, "complex128": 2.0**-52}


def close(a, b, dtype="float64"):
    if isinstance(a, list) and isinstance(b, list) and len(a) == 2 and len(b) == 2 and not isinstance(a[0], list):
        # complex pair
        return close(a[0], b[0], dtype) and close(a[1], b[1], dtype)
    if isinstance(a, bool) or isinstance(b, bool) or isinstance(a, int) and isinstance(b, int):
        return a == b
    a = float(a)
    b = float(b)
    if a == b:
        return True
    if a != a and b != b:
        return True
    if a != a or b != b or a in (float("inf"), float("-inf")) or b in (float("inf"), float("-inf")):
        return False
    eps = _EPS.get(dtype, 2.0**-52)
    return abs(a - b) <= 16 * eps * max(abs(a), abs(b))


def compare(a, b, path="", out=None, stats=None):
    """Return the list of field paths where two outcome descriptions differ
    (exact for structure/strings/classes, up to rounding for numbers)."""
    if out is None:
        out = []
    if type(a) is not type(b):
        if isinstance(a, (int, float)) and isinstance(b, (int, float)) and not isinstance(a, bool) and not isinstance(b, bool):
            if not close(a, b):
                out.append(path)
            return out
        out.append(path + ":type")
        return out
    if isinstance(a, dict):
        if set(a) != set(b):
            out.append(path + ":keys")
            return out
        dtype = a.get("dtype", "float64") if isinstance(a.get("dtype"), str) else "float64"
        for k in sorted(a):
            if k == "data" and isinstance(a[k], list):
                if len(a[k]) != len(b[k]):
                    out.append(f"{path}.data:len")
                else:
                    for i, (x, y) in enumerate(zip(a[k], b[k])):
                        if not close(x, y, dtype):
                            out.append(f"{path}.data")
                            break
                        elif stats is not None and x != y and x == x:
                            stats["within_tol"] = stats.get("within_tol", 0) + 1
            elif k in ("bv", "off", "v") and isinstance(a[k], (int, float, list)) and not isinstance(a[k], bool):
                if not close(a[k], b[k], dtype):
                    out.append(f"{path}.{k}")
                elif stats is not None and a[k] != b[k] and a[k] == a[k]:
                    stats["within_tol"] = stats.get("within_tol", 0) + 1
            else:
                compare(a[k], b[k], f"{path}.{k}", out, stats)
        return out
    if isinstance(a, list):
        if len(a) != len(b):
            out.append(path + ":len")
            return out
        for i, (x, y) in enumerate(zip(a, b)):
            compare(x, y, f"{path}[{i}]", out, stats)
        return out
    if isinstance(a, float):
        if not close(a, b):
            out.append(path)
        return out
    if a != b:
        out.append(path)
    return out


# -------------------------------------------------------------------- ops


def _dims(name):
    unyt, lt, dims, uo, ur, us = _U()
    if name == "dimensionless":
        return dims.dimensionless
    if "/" in name or "*" in name:
        # a composite of the library's own dimension objects, e.g. "angle/length" (names come from the harness's
        # catalogues only)
        return eval(name, {"__builtins__": {}}, dict(vars(dims)))
    return getattr(dims, name)


def _mkq(w, reg, v, s, route="ctor"):
    unyt, lt, dims, uo, ur, us = _U()
    if route == "mul":
        return v * uo.Unit(s, registry=reg)
    if isinstance(v, list):
        return unyt.unyt_array(v, s, registry=reg)
    if route == "array":
        return unyt.unyt_array([v], s, registry=reg)
    if route == "from_string" and not isinstance(v, list):
        return unyt.unyt_quantity.from_string("%r %s" % (float(v), s), unit_registry=reg)
    if route == "array_unitstr" and not isinstance(v, list):
        return unyt.unyt_array(np.array([v, v]), s, registry=reg)
    return unyt.unyt_quantity(v, s, registry=reg)


def op_unit(w, op):
    unyt, lt, dims, uo, ur, us = _U()
    return uo.Unit(op["s"], registry=w.handle(op))


def op_quantity(w, op):
    return _mkq(w, w.handle(op), op["v"], op["s"], op.get("route", "ctor"))


def op_list_same(w, op):
    unyt, lt, dims, uo, ur, us = _U()
    reg = w.handle(op)
    return reg.list_same_dimensions(uo.Unit(op["s"], registry=reg))


def op_regview(w, op):
    """The registry's read-only views of its contents."""
    reg = w.handle(op)
    what = op.get("what", "keys")
    if what == "keys":
        return sorted(k for k in reg.keys() if k in op["names"])
    if what == "prefixable":
        return sorted(k for k in reg.prefixable_units if k in op["names"])
    return [n in reg for n in op["names"]]


def op_arrlist(w, op):
    """unyt_array([q1, q2, ...], registry=reg) from quantities of the exported namespace."""
    unyt, lt, dims, uo, ur, us = _U()
    reg = w.handle(op)
    qs = [float(i + 1) * getattr(unyt, n) for i, n in enumerate(op["names"])]
    return unyt.unyt_array(qs, registry=reg)


def op_arrbypass(w, op):
    """unyt_array(ndarray, <an existing Unit object>, registry=reg, bypass_validation=True): the documented fast
    constructor with the documented registry= argument.  The Unit object is an exported one (unyt.m) or the unit of a
    heap object, possibly of another registry."""
    unyt, lt, dims, uo, ur, us = _U()
    reg = w.handle(op)
    if "name" in op:
        u = getattr(unyt, op["name"])
        u = u if isinstance(u, uo.Unit) else u.units
    else:
        x = w.operand(op, "x")
        u = x if isinstance(x, uo.Unit) else getattr(x, "units", None)
        if not isinstance(u, uo.Unit):
            raise Skip
    if op.get("cls") == "quantity":
        return unyt.unyt_quantity(np.float64(op["v"]), u, registry=reg, bypass_validation=True)
    return unyt.unyt_array(np.array([op["v"], 2.0 * op["v"]]), u, registry=reg, bypass_validation=True)


def op_getitem(w, op):
    e = w.handle(op)[op["s"]]
    return [float(e[0]), str(e[1]), float(e[2]), bool(e[4])]


def op_contains(w, op):
    return op["s"] in w.handle(op)


def op_to(w, op):
    x = w.operand(op, "x")
    unyt, lt, dims, uo, ur, us = _U()
    if not isinstance(x, unyt.unyt_array):
        raise Skip
    how = op.get("how", "to")
    if how == "to":
        return x.to(op["s"])
    if how == "in_units":
        return x.in_units(op["s"])
    if how == "to_value":
        return x.to_value(op["s"])
    if how == "convert":
        x.convert_to_units(op["s"])
        return x
    raise HarnessError(how)


def op_to_unit(w, op):
    unyt, lt, dims, uo, ur, us = _U()
    x = w.operand(op, "x")
    u = w.operand(op, "u")
    if not isinstance(x, unyt.unyt_array):
        raise Skip
    return x.to(u.units)


_BIN = {
    "add": lambda a, b: a + b,
    "sub": lambda a, b: a - b,
    "mul": lambda a, b: a * b,
    "div": lambda a, b: a / b,
    "eq": lambda a, b: a == b,
    "lt": lambda a, b: a < b,
    "max": lambda a, b: np.maximum(a, b),
    "arctan2": lambda a, b: np.arctan2(a, b),
    "isub": lambda a, b: a.copy().__isub__(b),
    # NumPy array functions over operands that may live in different registries
    "concat": lambda a, b: np.concatenate([np.atleast_1d(a), np.atleast_1d(b)]),
    "stack": lambda a, b: np.stack([np.atleast_1d(a)[:1], np.atleast_1d(b)[:1]]),
    "where": lambda a, b: np.where(np.asarray(np.atleast_1d(a)[:1]) > 0, np.atleast_1d(a)[:1], np.atleast_1d(b)[:1]),
    "dot": lambda a, b: np.dot(np.atleast_1d(a)[:1], np.atleast_1d(b)[:1]),
    "isclose": lambda a, b: np.isclose(a, b),
    "ge": lambda a, b: a >= b,
    "ne": lambda a, b: a != b,
    "mod": lambda a, b: a % b,
    "floordiv": lambda a, b: a // b,
    "hypot": lambda a, b: np.hypot(a, b),
    "minimum": lambda a, b: np.minimum(a, b),
    "cross": lambda a, b: np.cross(np.resize(np.atleast_1d(a), 3), np.resize(np.atleast_1d(b), 3)),
}


_ARRAYS_ONLY = {"concat", "stack", "where", "dot", "isclose", "mod", "floordiv", "hypot", "minimum", "cross"}


def op_binop(w, op):
    x = w.operand(op, "x")
    y = w.operand(op, "y")
    if op["f"] in _ARRAYS_ONLY and not (isinstance(x, np.ndarray) and isinstance(y, np.ndarray)):
        raise Skip  # a bare Unit operand: NumPy would build an object array of it
    return _BIN[op["f"]](x, y)


def op_unop(w, op):
    unyt, lt, dims, uo, ur, us = _U()
    x = w.operand(op, "x")
    f = op["f"]
    if f == "sqrt":
        return np.sqrt(x) if isinstance(x, unyt.unyt_array) else x**0.5
    if f == "square":
        return np.square(x) if isinstance(x, unyt.unyt_array) else x * x
    if f == "neg":
        if not isinstance(x, unyt.unyt_array):
            raise Skip
        return -x
    if f == "pow":
        return x ** op["p"]
    if f == "recip":
        return 1 / x
    if f == "cbrt":
        return np.cbrt(x) if isinstance(x, unyt.unyt_array) else x ** (1.0 / 3.0)
    raise HarnessError(f)


BUILTIN_SYSTEMS = ("cgs", "mks", "imperial", "galactic", "solar", "geometrized", "planck")


def usys_def(w, name):
    for d in w.usys_defs:
        if d["name"] == name:
            return d
    return None


def build_usys(w, d):
    """The real UnitSystem constructor (and __setitem__) on a node's registry."""
    unyt, lt, dims, uo, ur, us = _U()
    node = w.node({"node": d["node"]})
    kw = {}
    if d.get("temp"):
        kw["temperature_unit"] = d["temp"]
    sysobj = us.UnitSystem(d["name"], d["len"], d["mass"], d["time"], registry=node.handles[d.get("h", 0) % len(node.handles)], **kw)
    for dim, u in d.get("set", []):
        sysobj[dim] = u
    return sysobj


def op_mkusys(w, op):
    d = {"name": op["name"], "node": w.node(op).id if not w.cold else op["node"], "h": op.get("h", 0),
         "len": op["len"], "mass": op["mass"], "time": op["time"], "temp": op.get("temp"), "set": []}
    if usys_def(w, op["name"]) is not None:
        raise Skip
    if w.cold:
        sysobj = build_usys(w, d)
    else:
        dd = dict(d)
        dd["node"] = op["node"]  # warm worlds address nodes by index
        sysobj = build_usys(w, dd)
        w.usys_defs.append(d)
    return repr(sysobj)


def op_mkusys_bad(w, op):
    """A UnitSystem construction that must be REFUSED (a mass symbol as the length unit, an unknown symbol ...),
    under a built-in system's name or a fresh one.  A refused construction changes nothing - in particular not the
    process-global table of unit systems."""
    unyt, lt, dims, uo, ur, us = _U()
    node = w.node(op)
    reg = node.handles[op.get("h", 0) % len(node.handles)]
    return repr(us.UnitSystem(op["name"], op["len"], op["mass"], op["time"], registry=reg))


def _the_system(w, name):
    unyt, lt, dims, uo, ur, us = _U()
    if name in BUILTIN_SYSTEMS:
        return us.unit_system_registry[name], None
    d = usys_def(w, name)
    if d is None:
        raise Skip
    return us.unit_system_registry[name], d


def op_usys_get(w, op):
    sysobj, _ = _the_system(w, op["name"])
    return sysobj[op["dim"]]


def op_usys_set(w, op):
    sysobj, d = _the_system(w, op["name"])
    if d is None:
        raise Skip  # the built-in systems are process-global: not edited by the workload
    sysobj[op["dim"]] = op["ustr"]
    if not w.cold:
        d["set"].append([op["dim"], op["ustr"]])
    return None


def op_base(w, op):
    unyt, lt, dims, uo, ur, us = _U()
    x = w.operand(op, "x")
    how = op.get("how", "in_base")
    sysn = op.get("sys")
    if isinstance(sysn, str) and sysn not in BUILTIN_SYSTEMS and usys_def(w, sysn) is None:
        raise Skip
    if how == "get_base_equivalent":
        return x.units.get_base_equivalent(sysn)
    if not isinstance(x, unyt.unyt_array):
        raise Skip
    if how == "in_base":
        return x.in_base(sysn)
    if how == "convert_to_base":
        x.convert_to_base(sysn)
        return x
    if how == "in_cgs":
        return x.in_cgs()
    if how == "in_mks":
        return x.in_mks()
    raise HarnessError(how)


def op_unitop(w, op):
    x = w.operand(op, "x").units
    f = op["f"]
    if f == "pow":
        return x ** op["p"]
    if f == "str":
        return str(x)
    if f == "is_dimensionless":
        return x.is_dimensionless
    if f == "latex":
        return x.latex_repr
    y = w.operand(op, "y").units
    if f == "mul":
        return x * y
    if f == "div":
        return x / y
    if f == "eq":
        return x == y
    if f == "same_dims":
        return x.same_dimensions_as(y)
    if f == "conv":
        return list(x.get_conversion_factor(y))
    raise HarnessError(f)


def op_simplify(w, op):
    x = w.operand(op, "x")
    return x.units.simplify()


def op_units_of(w, op):
    return w.operand(op, "x").units


def op_rebind(w, op):
    unyt, lt, dims, uo, ur, us = _U()
    x = w.operand(op, "x")
    reg = w.handle(op)
    if isinstance(x, unyt.unyt_array):
        return unyt.unyt_array(x, registry=reg)
    return uo.Unit(str(x), registry=reg)


def op_namespace(w, op):
    unyt, lt, dims, uo, ur, us = _U()
    ns = {}
    reg = w.handle(op)
    if op.get("what") == "constants":
        us.add_constants(ns, reg)
    else:
        us.add_symbols(ns, reg)
    names = sorted(ns)
    pick = [names[i % len(names)] for i in op.get("pick", [0, 7, 101])] if names else []
    return {"n": len(names), "sample": {k: ns[k] for k in pick}}


def op_copyobj(w, op):
    x = w.operand(op, "x")
    how = op["how"]
    if how == "copy":
        return x.copy()
    if how == "deepcopy":
        return copy.deepcopy(x)
    if how == "pickle":
        return pickle.loads(pickle.dumps(x, protocol=op.get("proto", 4)))
    raise HarnessError(how)


# -- edits (return None; effect is read back from the table)


def op_add(w, op):
    reg = w.handle(op)
    reg.add(
        op["sym"],
        op["scale"],
        _dims(op["dims"]),
        offset=op.get("offset"),
        prefixable=op.get("prefixable", False),
    )


def op_modify(w, op):
    w.handle(op).modify(op["sym"], op["value"])


def _heap_quantity(w, op):
    """An existing scalar quantity (possibly older than the last edit of its own symbol) as the defining value."""
    unyt, lt, dims, uo, ur, us = _U()
    q = w.operand(op, "x")
    if not isinstance(q, unyt.unyt_quantity) or q.units.base_offset != 0.0 or np.iscomplexobj(q):
        raise Skip
    return q


def op_modify_q(w, op):
    reg = w.handle(op)
    q = _heap_quantity(w, op) if "x" in op else _mkq(w, reg, op["v"], op["s"])
    reg.modify(op["sym"], q)


def op_remove(w, op):
    w.handle(op).remove(op["sym"])


def op_define_unit(w, op):
    unyt, lt, dims, uo, ur, us = _U()
    node = w.node(op)
    reg = w.handle(op, node)
    if "x" in op:
        value = _heap_quantity(w, op)
    elif op.get("form") == "quantity":
        value = _mkq(w, reg, op["v"], op["s"])
    elif op.get("form") == "quantity_default":
        # the documented idiom define_unit("code_mass", 1e10*unyt.Msun, registry=reg): the value lives in the
        # default registry, the definition must land in reg
        value = _mkq(w, ur.default_unit_registry, op["v"], op["s"])
    else:
        value = (op["v"], op["s"])
    kw = {}
    if node.kind != "default" or op.get("explicit_registry"):
        kw["registry"] = reg
    uo.define_unit(
        op["sym"], value, offset=op.get("offset"), prefixable=op.get("prefixable", False), **kw
    )


EDITS = {"add": op_add, "modify": op_modify, "modify_q": op_modify_q,
         "remove": op_remove, "define_unit": op_define_unit}

PROBES = {
    "unit": op_unit, "quantity": op_quantity, "getitem": op_getitem, "contains": op_contains,
    "to": op_to, "to_unit": op_to_unit, "binop": op_binop, "unop": op_unop, "base": op_base,
    "unitop": op_unitop, "simplify": op_simplify, "units_of": op_units_of, "rebind": op_rebind,
    "namespace": op_namespace, "copyobj": op_copyobj,
    "mkusys": op_mkusys, "mkusys_bad": op_mkusys_bad, "usys_get": op_usys_get, "usys_set": op_usys_set,
    "list_same": op_list_same, "regview": op_regview, "arrlist": op_arrlist, "arrbypass": op_arrbypass,
}

INPLACE_TARGET = {("to", "convert"), ("base", "convert_to_base")}


def harness_frame(tb):
    """True if the innermost frame of a traceback is harness code (then the
    exception is a bug of mine, not an outcome of unyt)."""
    last = None
    for fs in traceback.extract_tb(tb):
        last = fs
    return last is not None and last.filename.startswith(VERIF_DIR)


def run_call(fn, w, op):
    """-> (outcome description, result object).  Exceptions raised inside
    unyt / numpy / sympy are outcomes; exceptions raised by harness code are
    harness errors."""
    try:
        with warnings.catch_warnings():
            warnings.simplefilter("ignore")
            with np.errstate(all="ignore"):
                res = fn(w, op)
    except Skip:
        raise
    except HarnessError:
        raise
    except Exception as e:
        operator_refusal = isinstance(e, TypeError) and (
            "not supported between" in str(e) or "unsupported operand" in str(e) or "bad operand type" in str(e)
        )
        if harness_frame(e.__traceback__) and not operator_refusal:
            raise HarnessError("harness bug in op %r:\n%s" % (op, traceback.format_exc()))
        return {"exc": type(e).__name__}, None
    return {"ok": describe(res, w)}, res


# -------------------------------------------------------------- cold twin


def make_cold_request(w, op, extra_nodes=()):
    nodes = []
    operands = {}
    need = set(extra_nodes)
    if "node" in op:
        need.add(w.node(op).id)
    for f in OPERAND_FIELDS:
        if f in op:
            x = w.operand(op, f)
            d = wire_operand(x, w)
            ud = d if d["k"] == "unit" else d["u"]
            if not isinstance(ud["node"], int):
                return None
            need.add(ud["node"])
            operands[f] = d
    defs = []
    if op["k"] == "usys_get" and op.get("name") in BUILTIN_SYSTEMS:
        need.add(0)  # the built-in systems hand out units of the default registry
    if op.get("form") == "quantity_default":
        need.add(0)  # the defining quantity lives in the default registry, whose contents a run may have extended
    if getattr(w, "default_touched", False):
        # the built-in unit systems resolve their base units against the default registry: once a run has
        # (legitimately) added to it, every in_base / define_unit anywhere depends on its contents
        need.add(0)
    for key in ("name", "sys"):
        d = usys_def(w, op[key]) if isinstance(op.get(key), str) else None
        if d is not None and op["k"] != "mkusys":
            need.add(d["node"])
            dd = dict(d)
            dd["h"] = 0
            dd["set"] = [list(x) for x in d["set"]]
            defs.append(dd)
    for n in w.nodes:
        if n.id in need:
            nodes.append(n.wire())
    cop = dict(op)
    if "node" in op:
        cop["node"] = w.node(op).id
    cop["h"] = 0
    return {"op": cop, "nodes": nodes, "operands": operands, "usys_defs": defs}


def cold_eval(req):
    """Runs in a pristine process: build fresh registries from the models,
    rebuild the operands from their descriptions, perform the one call."""
    unyt, lt, dims, uo, ur, us = _U()
    w = World(cold=True)
    for nw in req["nodes"]:
        reg, model = build_registry(nw)
        w.nodes.append(Node(nw["id"], nw["kind"], reg, model, nw["usys"]))
    for f, d in req["operands"].items():
        w.cold_operands[f] = rebuild_operand(d, w)
    for d in req.get("usys_defs", []):
        # a user-defined unit system as a history-free process would have it:
        # built now, from its definition, on the fresh registry
        try:
            build_usys(w, d)
        except Exception as e:
            if harness_frame(e.__traceback__):
                raise
            # the definition is no longer valid under the registry's current
            # contents (a base symbol was removed or changed dimension): a
            # fresh process could not have this system at all - no verdict
            return {"no_twin": "unit system %s cannot be rebuilt: %s" % (d["name"], type(e).__name__)}
        w.usys_defs.append(d)
    op = req["op"]
    k = op["k"]
    if k == "unit_batch":
        return cold_unit_batch(req)
    if k in EDITS:
        node = w.node(op)
        before = dict(node.reg.lut)
        out, _ = run_call(EDITS[k], w, op)
        after = node.reg.lut
        sym = op["sym"]
        out["entry"] = entry_wire(after[sym]) if sym in after else None
        out["others_changed"] = sorted(
            kk for kk in set(before) | set(after)
            if kk != sym and (kk not in after or kk not in before or not entry_eq(before[kk], after[kk]))
            and derive(kk, node.model) is None
        )
        if k in ("define_unit", "modify_q") and "exc" not in out and node.kind != "default":
            # independent expectation: a symbol defined as (v, unit) holds v*unit expressed in MKS, whatever
            # unit system the registry converts to by default.  Computed on a second fresh registry with the
            # same contents before the edit but the mks unit system, with an explicit in_base("mks").
            try:
                nw = next(n for n in req["nodes"] if n["id"] == node.id)
                reg2, _ = build_registry(dict(nw, usys="mks"))
                if "x" in op:
                    # the defining value is an existing object: what it IS is its own number times its own unit's
                    # base value (the value that unit had when it was created), not what its spelling means now
                    # Relative to the registry's own MKS base units (a registry that has redefined "m" itself
                    # measures in_base("mks") in ITS metres; whether that is right is not a question of history),
                    # and only for mechanical dimensions: electromagnetic ones are translated cgs <-> mks.
                    q = w.cold_operands["x"]
                    dstr = str(q.units.dimensions)
                    if "current_mks" in dstr or "sqrt" in dstr or "/2)" in dstr or "logarithmic" in dstr:
                        out["expected"] = None
                    else:
                        be = q.units.get_base_equivalent("mks")
                        out["expected"] = [float(q.value) * float(q.units.base_value) / float(be.base_value), dstr]
                elif op.get("form") == "quantity_default":
                    q = unyt.unyt_quantity(op["v"], op["s"])
                    out["expected"] = [float(q.in_base("mks").value), str(q.units.dimensions)]
                else:
                    q = unyt.unyt_quantity(op["v"], op["s"], registry=reg2)
                    out["expected"] = [float(q.in_base("mks").value), str(q.units.dimensions)]
            except Exception as e:
                if harness_frame(e.__traceback__):
                    raise
                out["expected"] = None
        return out
    out, res = run_call(PROBES[k], w, op)
    if (k, op.get("how")) in INPLACE_TARGET or k == "simplify":
        out["target"] = describe(w.cold_operands.get("x"), w)
    return out


def cold_unit_batch(req):
    """End-of-run resolution digest: many unit strings against one node's
    contents in ONE pristine child.  Each string still meets a registry with
    no history: a fresh registry is built from the model for every string
    (for the default node: the import-time string cache is put back), and
    every lru memo table is cleared in between."""
    unyt, lt, dims, uo, ur, us = _U()
    nw = req["nodes"][0]
    saved = dict(ur.default_unit_registry._unit_object_cache) if nw["kind"] == "default" else None
    outs = []
    for s in req["op"]["strings"]:
        w = World(cold=True)
        reg, model = build_registry(nw)
        if saved is not None and not nw["set"]:
            reg._unit_object_cache.clear()
            reg._unit_object_cache.update(saved)
        w.nodes.append(Node(nw["id"], nw["kind"], reg, model, nw["usys"]))
        seams.clear_lru()
        out, _ = run_call(op_unit, w, {"k": "unit", "node": nw["id"], "h": 0, "s": s})
        outs.append(out)
    return {"batch": outs}


# ---------------------------------------------------------------- audits


def audit_node(node, w):
    """Non-perturbing: compare the raw table of a node with its model."""
    problems = []
    lut = node.reg.lut
    for h in node.handles[1:]:
        if h.lut is not lut:
            problems.append(("handle-diverged", ""))
    model = node.model
    for k, m in model.items():
        a = lut.get(k)
        if a is None:
            problems.append(("missing", k))
        elif not (a is m or entry_eq(a, m)):
            problems.append(("changed", k))
    if len(lut) != len(model):
        for k in lut:
            if k not in model:
                imp = derive(k, model)
                if imp is None:
                    problems.append(("stray", k))
                elif not entry_eq(lut[k], imp):
                    problems.append(("stale-derived", k))
    return problems


class GlobalSnapshot:
    """Process-global things C13 says must not change: the default table
    module, the exported namespaces, the built-in unit systems."""

    def __init__(self):
        unyt, lt, dims, uo, ur, us = _U()
        import unyt.physical_constants as pc
        import unyt.unit_symbols as usym

        self.lut = lt.default_unit_symbol_lut
        self.lut_items = dict(self.lut)
        self.mods = {"unyt": unyt, "unit_symbols": usym, "physical_constants": pc}
        self.bindings = []  # (module dict, modname, name, object)
        self.units = {}  # id -> (label, unit object, bv, off, dims, expr)
        self.arrays = {}  # id -> (label, array, bytes, dtype, unit object)
        for modname, mod in sorted(self.mods.items()):
            for name, obj in sorted(vars(mod).items()):
                if isinstance(obj, uo.Unit):
                    self.bindings.append((vars(mod), modname, name, obj))
                    self._snap_unit(f"{modname}.{name}", obj)
                elif isinstance(obj, unyt.unyt_array):
                    self.bindings.append((vars(mod), modname, name, obj))
                    if id(obj) not in self.arrays:
                        self.arrays[id(obj)] = (
                            f"{modname}.{name}", obj, np.asarray(obj.d).tobytes(),
                            str(obj.dtype), obj.units,
                        )
                        self._snap_unit(f"{modname}.{name}.units", obj.units)
        self.usys = dict(us.unit_system_registry)
        # module-level tables the parser and the conversions consult: nothing done for a custom registry may
        # write into them
        self.tables = {}
        import unyt._parsing as _pars
        import unyt.equivalencies as _eq

        for mod in (lt, uo, _pars, us, _eq, ur):
            for name, obj in sorted(vars(mod).items()):
                if isinstance(obj, dict) and not name.startswith("__") and id(obj) not in {id(t[1]) for t in self.tables.values()}:
                    if name in ("default_unit_symbol_lut", "unit_system_registry", "_LINE_CACHE"):
                        continue
                    try:
                        self.tables[f"{mod.__name__}.{name}"] = (dict(obj), obj)
                    except Exception:
                        pass
        self.names = {(modname, name) for _ns, modname, name, _o in self.bindings}

    def _snap_unit(self, label, u):
        if id(u) not in self.units:
            self.units[id(u)] = (label, u, u.base_value, u.base_offset, u.dimensions, u.expr, u.registry)

    def check(self, allowed_new=()):
        unyt, lt, dims, uo, ur, us = _U()
        problems = []
        if len(self.lut) != len(self.lut_items):
            problems.append(("default-table-keys", ""))
        for k, v in self.lut_items.items():
            if self.lut.get(k) is not v:
                problems.append(("default-table-entry", k))
        for ns, modname, name, obj in self.bindings:
            if ns.get(name) is not obj and name not in allowed_new:
                # (allowed_new: define_unit ON THE DEFAULT REGISTRY exports - and for a name like "year" that was
                # already exported re-binds - the symbol, by documented design)
                problems.append(("export-rebound", f"{modname}.{name}"))
        for label, u, bv, off, dm, expr, reg in self.units.values():
            if not (u.base_value == bv and u.base_offset == off and u.dimensions is dm):
                problems.append(("export-value", label))
            if u.expr is not expr and u.expr != expr:
                problems.append(("export-expr", label))
            if u.registry is not reg:
                problems.append(("export-registry", label))
        for label, a, raw, dt, u in self.arrays.values():
            if a.units is not u:
                problems.append(("export-unit-rebound", label))
            if str(a.dtype) != dt or np.asarray(a.d).tobytes() != raw:
                problems.append(("export-data", label))
        for k, v in self.usys.items():
            if us.unit_system_registry.get(k) is not v:
                problems.append(("unit-system-replaced", k))
        for label, (copy_, live) in self.tables.items():
            if len(copy_) != len(live) or any(k not in live or live[k] is not v and live[k] != v for k, v in copy_.items()):
                problems.append(("module-table-changed", label))
        for modname, mod in sorted(self.mods.items()):
            for name, obj in sorted(vars(mod).items()):
                if (modname, name) in self.names or name in allowed_new:
                    continue
                if isinstance(obj, (uo.Unit, unyt.unyt_array)):
                    # only define_unit / add on the DEFAULT registry may export a new name
                    problems.append(("export-new-name", f"{modname}.{name}"))
        return problems
