"""Counters aggregated over the runs of one check, and the evidence file."""

import json
import os

HERE = os.path.dirname(os.path.dirname(os.path.abspath(__file__)))

RULES = {
    "C12": "One case = one seeded history (3-40 public calls: registry edits, unit construction from atomic / "
           "prefixed / compound / power / coefficient / alias strings, arithmetic, conversions, cache-loss and restart "
           "faults) executed in a pristine forked process; every probed call is re-evaluated by a cold twin (fresh "
           "process, fresh registry built from the reference model). Non-trivial = at least one successful edit of a "
           "symbol followed by a probe of a spelling containing that symbol which some memo layer had served before "
           "the edit. Distinct = distinct sequence of (operation kind, spelling class) over the run.",
    "C13": "One case = one seeded interleaving of operations on the default registry and 1-4 custom registries "
           "(created plain / empty / from lut= / JSON / deepcopy / unpickling / Unit.copy / with a unit system); "
           "isolation invariants I1-I5 after every step. Non-trivial = >=2 registries touched, >=1 successful edit "
           "on one while another held warm memo state, and >=1 cross-registry or restore operation. Distinct = "
           "distinct sequence of (operation kind, spelling class).",
    "C18": "One case = one program of 1-6 calls drawn from the call-template table with a fault kind at a seeded "
           "operand position, on a heap of arrays that are views of shared buffers. Non-trivial = the call raised, or "
           "succeeded in place on a view / integer / aliased target. Distinct = distinct (template, role, fault kind, "
           "operand-config class) tuples.",
    "C11": "One case = build an object, persist it through one route, inject a volatile-state fault, restore, then "
           "run a seeded battery of follow-up operations on original and restored lineage in scheduler-chosen order. "
           "Non-trivial = guard-relevant unit class or custom registry, and >=1 follow-up executed on both lineages. "
           "Distinct = distinct (route, fault, unit class, follow-up kinds) tuples.",
}

REAL_VS_STUB = {
    "real": ["all of unyt (from UNYT_SRC, default /repo working tree)", "numpy", "sympy", "pickle", "json", "copy"],
    "rewrapped_real": ["functools.lru_cache around unyt's own rule functions at a simulator-chosen maxsize"],
    "sim_owned": ["process lifetime (fork per run / per cold-twin call)", "sympy global cache (clear_cache as a fault)",
                  "file object handed to savetxt", "warnings filter"],
    "stub": ["h5py: unytsim/fakeh5.py, an in-process File/Group/Dataset/attrs over plain dicts; unyt's write_hdf5 / from_hdf5 are "
             "real code, the storage is the stub (C12/C13 only: a registry obtained by an HDF5 round trip is one more node)"],
    "absent_not_exercised": ["dask", "astropy", "pint", "matplotlib"],
}


def raise_reach(sites):
    """Which of unyt's own `raise` statements (found by ast in the source
    tree under test) were executed by the runs of this check."""
    import ast

    from .core import unyt_src

    root = os.path.join(os.path.realpath(unyt_src()), "unyt")
    stmts = set()
    for fn in sorted(os.listdir(root)):
        if not fn.endswith(".py"):
            continue
        try:
            tree = ast.parse(open(os.path.join(root, fn)).read())
        except SyntaxError:
            continue
        for node in ast.walk(tree):
            if isinstance(node, ast.Raise):
                stmts.add((fn, node.lineno))
    hit = sorted(s for s in stmts if s in sites)
    missed = sorted(s for s in stmts if s not in sites)
    return {
        "raise_statements_in_unyt": len(stmts), "reached": len(hit),
        "other_raising_lines_reached": len([s for s in sites if s not in stmts]),
        "reached_by_file": {f: sum(1 for s in hit if s[0] == f) for f in sorted({s[0] for s in stmts})},
        "not_reached": [f"{f}:{ln}" for f, ln in missed][:120],
    }


class Aggregate:
    def __init__(self, prop):
        self.prop = prop
        self.runs = 0
        self.steps = 0
        self.cold_calls = 0
        self.ops = {}
        self.faults = {}
        self.probes = {}
        self.exc = {}
        self.skipped = 0
        self.within_tol = 0
        self.twin_skipped = 0
        self.shapes_all = set()
        self.shapes_nontrivial = set()
        self.nontrivial_runs = 0
        self.states = set()
        self.samples = []
        self.other_props = {}
        self.extra = {}
        self.raise_sites = set()

    def _merge(self, into, d):
        for k, v in (d or {}).items():
            into[k] = into.get(k, 0) + v

    def add(self, res):
        self.runs += 1
        self.steps += res.get("steps", 0)
        self.cold_calls += res.get("cold_calls", 0)
        st = res.get("stats", {})
        self._merge(self.ops, st.get("ops"))
        self._merge(self.faults, st.get("faults"))
        self._merge(self.exc, st.get("exc"))
        self._merge(self.probes, res.get("probes"))
        self.skipped += st.get("skipped", 0)
        self.within_tol += st.get("within_tol", 0)
        self.twin_skipped += st.get("twin_skipped", 0)
        for k, v in (res.get("extra") or {}).items():
            if isinstance(v, (int, float)):
                self.extra[k] = self.extra.get(k, 0) + v
            elif isinstance(v, list):
                self.extra.setdefault(k, set()).update(v)
        shapes = res.get("shapes")
        if shapes is None:
            shapes = [(res.get("shape"), res.get("nontrivial"))]
        for sh, nt in shapes:
            self.shapes_all.add(sh)
            if nt:
                self.shapes_nontrivial.add(sh)
        if res.get("nontrivial"):
            self.nontrivial_runs += 1
        if res.get("abstract_state"):
            self.states.add(res["abstract_state"])
        self.raise_sites.update(tuple(x) for x in res.get("raise_sites", []))
        for v in res.get("other_violations", []):
            self.other_props[v["sig"]] = self.other_props.get(v["sig"], 0) + 1
        if len(self.samples) < 3 and res.get("nontrivial"):
            self.samples.append({"seed": res["seed"], "run": res["run"], "ops": res["ops"][:40]})


def write(prop, tier, seed, level, agg, selftest, wall, batch_wall=None, error=None, violations=0,
          known=(), minimisation=(), not_run=0, signatures_seen=(), regression_replays=0):
    out = os.environ.get("VERIF_OUT") or HERE  # VERIF_OUT: runs against seeded changes must not overwrite evidence/
    os.makedirs(os.path.join(out, "evidence"), exist_ok=True)
    cov = {
        "evaluations": agg.runs if agg else 0,
        "distinct_nontrivial": len(agg.shapes_nontrivial) if agg else 0,
        "rule": RULES[prop],
        "samples": (agg.samples if agg and agg.samples else [{"note": "no sample collected"}]),
        "exhaustive": False,
    }
    if agg:
        bw = batch_wall or wall or 1.0
        cov.update({
            "nontrivial_runs": agg.nontrivial_runs,
            "distinct_shapes_all": len(agg.shapes_all),
            "simulated_steps_total": agg.steps,
            "simulated_time_note": "logical steps (global event sequence number); unyt has no clock or timer",
            "runs_per_hour": int(agg.runs / bw * 3600),
            "seeds": f"VERIF_SEED={seed}, one PRNG per run id: random.Random('{seed}:{prop}:<run>')",
            "cold_twin_calls": agg.cold_calls,
            "twin_skipped": agg.twin_skipped,
            "comparisons_equal_only_within_tolerance": agg.within_tol,
            "steps_per_op_kind": dict(sorted(agg.ops.items())),
            "skipped_records": agg.skipped,
            "faults_fired": dict(sorted(agg.faults.items())),
            "probes_hit": dict(sorted(agg.probes.items())),
            "exception_classes_observed": dict(sorted(agg.exc.items())),
            "distinct_abstract_states": len(agg.states),
            "violations_of_other_properties_seen_not_reported_here": dict(sorted(agg.other_props.items())),
            "runs_not_started_budget": not_run,
            "regression_replays_of_repaired_defects": regression_replays,
            "real_vs_stub": REAL_VS_STUB,
        })
        for k, v in agg.extra.items():
            if k == "grid_cells_visited" and isinstance(v, set):
                # (template, fault site/kind) cells of the C18 grid: counts, not the 12 000-line list
                cov["grid_cells_visited"] = len(v)
                try:
                    from . import c18sim

                    total = {"%s|%s" % (n, ("%s@%s" % (kd, st)) if kd != "none" else "none") for n, st, kd in c18sim.grid()}
                    cov["grid_cells_total"] = len(total)
                    cov["grid_cells_visited_of_total"] = len(v & total)
                    cov["distinct_abstract_states"] = len(v)
                except Exception as e:  # evidence must be written even if the grid cannot be rebuilt here
                    cov["grid_cells_total"] = "unavailable: %r" % (e,)
                continue
            cov[k] = sorted(v) if isinstance(v, set) else v
        cov["raise_statement_reach"] = raise_reach(agg.raise_sites)
    cov["determinism_selftest"] = selftest
    cov["known_findings_listed"] = list(known)
    cov["minimisation"] = list(minimisation)
    cov["signatures_seen"] = list(signatures_seen)
    if error:
        cov["error"] = error
    doc = {
        "property_id": prop, "tier": tier, "seed": int(seed), "level": level, "coverage": cov,
        "assumptions": [
            "sampling, not proof: holds on the explored histories / fault placements only",
            "interleaving granularity is one public call (unyt is single-threaded; no sub-call pre-emption)",
            "the cold twin uses unyt itself on a history-free registry as the oracle for what a unit string means",
            "dask, astropy, pint and matplotlib routes are not exercised (packages not installed); HDF5 runs against an in-process h5py stand-in (C12/C13)",
            "numbers taking different floating-point routes are compared up to 16 eps of the result dtype",
        ],
        "wall_s": round(wall, 1),
        "violations": int(violations),
    }
    path = os.path.join(out, "evidence", f"{prop}.json")
    with open(path, "w") as f:
        json.dump(doc, f, indent=1, ensure_ascii=False, default=str)
    return path
