"""Simulation of registry histories for C12 (profile "C12") and C13 (profile
"C13"): seeded generator with biased placement, step executor with the
oracles of DESIGN.md 3.1 / 3.2, end-of-run resolution digest.
"""

import copy
import pickle
import re

import numpy as np

from . import regworld as rw
from . import seams
from .core import EventLog, HarnessError, make_rng, wchoice

CUSTOM = ["foo", "bar", "code_length", "baz", "kfoo", "code_mass", "year", "meter"]  # the last two: alternative spellings
# the parser maps to yr / m before it asks the registry
DEFSYMS = ["m", "s", "g", "ft", "K", "degC", "erg", "G", "dB", "degree", "pc", "Msun", "C", "T"]
NEG_SYMS = [("J", "joule"), ("N", "newton"), ("K", "kelvin"), ("W", "watt"), ("Hz", "hertz"), ("m", "meter"), ("s", "second"),
            ("g", "gram"), ("pc", "parsec"), ("yr", "year"), ("ft", "foot"), ("Pa", "pascal"), ("T", "tesla")]
ALIASES = {"m": "meter", "s": "second", "g": "gram", "ft": "foot", "K": "kelvin", "pc": "parsec"}
DIMS = ["length", "mass", "time", "temperature", "dimensionless", "velocity", "energy", "angle"]
SCALES = [2.0, 3.0, 0.5, 1.5, 10.0, 0.3048, 1000.0, 7.0, 0.01, 42.0, 1.0]
PREF = ["k", "m", "M", "da", "c", "µ", "u", "G"]
SYSTEMS = ["mks", "cgs", "imperial", "galactic", "solar", None]
VALUES = [1.0, 2.0, 0.25, 3.5, 10.0, -1.5]
ROUTES = ["plain", "plain", "empty", "lut", "json", "deepcopy", "pickle", "pickle_pair", "unitcopy_deep", "usys", "hdf5"]

_TOKEN = re.compile(r"[^\W\d]\w*", re.UNICODE)


def tokens(s):
    return set(_TOKEN.findall(s.replace("sqrt", " ")))


def spelling_class(s, sym_hint=None):
    t = s.strip()
    if re.fullmatch(r"[^\W\d]\w*", t, re.UNICODE):
        if sym_hint and t != sym_hint and t.endswith(sym_hint):
            return "prefixed"
        if t in ALIASES.values() or t.startswith("kilo"):
            return "alias"
        return "atomic"
    if re.match(r"^[0-9.]+\*", t) or re.search(r"/[0-9.]+$", t):
        return "coeff"
    if "sqrt" in t or ("**" in t and "*" not in t.replace("**", "") and "/" not in t):
        return "power"
    return "compound"


# -------------------------------------------------------------- generator


class Gen:
    def __init__(self, rng, cfg):
        self.rng = rng
        self.cfg = cfg
        self.script = None
        self.syms = cfg["syms"]
        self.defsyms = cfg["defsyms"]
        self.recent = None  # (node index, sym) most recently edited
        self.nsys = 0  # user-defined unit systems created so far (names must be unique per run)

    # -- helpers
    def custom_nodes(self, w):
        return [i for i, n in enumerate(w.nodes) if n.kind == "custom"]

    def pick_node(self, w, custom=None):
        r = self.rng
        cn = self.custom_nodes(w)
        if custom is True:
            return r.choice(cn) if cn else None
        if cn and r.random() < self.cfg["p_custom"]:
            return r.choice(cn)
        return r.randrange(len(w.nodes))

    def pick_sym(self, w, ni, present=None):
        r = self.rng
        node = w.nodes[ni]
        if self.recent and self.recent[0] == ni and r.random() < 0.6:
            return self.recent[1]
        pool = list(self.syms)
        if node.kind == "custom" or r.random() < 0.5:
            pool += self.defsyms
        if present is True:
            pool = [s for s in pool if s in node.model] or pool
        elif present is False:
            pool = [s for s in pool if s not in node.model] or pool
        return r.choice(pool)

    def spell(self, sym, cls=None, other=None):
        r = self.rng
        cls = cls or wchoice(r, [("atomic", 3), ("prefixed", 3), ("compound", 3), ("power", 1.5), ("coeff", 1), ("alias", 0.7)])
        A = sym if r.random() < 0.6 else r.choice(PREF) + sym
        B = other or r.choice(["s", "g", "m", "K"])
        if cls == "atomic":
            return sym
        if cls == "prefixed":
            return r.choice(PREF) + sym
        if cls == "compound":
            return r.choice([f"{A}*s", f"{A}/s", f"g*{A}/s**2", f"{A}**2/s", f"{A}*{B}", f"{A}/{B}", f"s*{A}", f"{B}/{A}"])
        if cls == "power":
            return r.choice([f"{A}**-1", f"sqrt({A})", f"{A}**(1/2)", f"{A}**3", f"{A}**2"])
        if cls == "coeff":
            return r.choice([f"2*{A}", f"3*{A}/s", f"{A}/4"])
        if cls == "alias":
            if sym in ALIASES:
                return r.choice([ALIASES[sym], "kilo" + ALIASES[sym], ALIASES[sym] + "/s"])
            return sym
        return sym

    def slot(self, w):
        return self.rng.randrange(max(1, len(w.heap)))

    def store(self):
        return self.rng.random() < self.cfg["p_store"]

    # -- single ops
    def g_new_node(self, w, route=None, src=None):
        r = self.rng
        op = {"k": "new_node", "route": route or r.choice(self.cfg["routes"])}
        if op["route"] in ("lut", "json", "deepcopy", "pickle", "pickle_pair", "unitcopy_deep", "hdf5"):
            op["src"] = src if src is not None else r.randrange(len(w.nodes))
        if op["route"] == "usys":
            op["usys"] = r.choice(["cgs", "mks", "imperial", "galactic"])
        return op

    def g_add(self, w, ni=None, sym=None, readd=None):
        r = self.rng
        ni = self.pick_node(w) if ni is None else ni
        sym = sym or self.pick_sym(w, ni, present=readd)
        scale = r.choice(SCALES)
        if r.random() < 0.04:
            scale = int(r.choice([1, 2, 3]))
        op = {"k": "add", "node": ni, "h": r.randrange(2), "sym": sym, "scale": scale,
              "dims": r.choice(self.cfg["dims"]), "prefixable": r.random() < 0.6}
        if op["dims"] in ("temperature", "angle") and r.random() < 0.5:
            op["offset"] = r.choice([273.15, 10.0, 0.5])
        self.recent = (ni, sym)
        return op

    def g_modify(self, w, ni=None, sym=None):
        r = self.rng
        ni = self.pick_node(w) if ni is None else ni
        sym = sym or self.pick_sym(w, ni, present=True if r.random() < 0.9 else None)
        self.recent = (ni, sym)
        if r.random() < 0.12:
            # same number, another dimension: modify by a quantity whose SI value equals the symbol's scale
            ent = w.nodes[ni % len(w.nodes)].model.get(sym)
            if ent is not None:
                return {"k": "modify_q", "node": ni, "h": r.randrange(2), "sym": sym, "v": float(ent[0]),
                        "s": r.choice(["s", "kg", "K", "m"])}
        if r.random() < 0.25:
            usym = self.pick_sym(w, ni, present=True)
            return {"k": "modify_q", "node": ni, "h": r.randrange(2), "sym": sym,
                    "v": r.choice(VALUES[:5]), "s": self.spell(usym)}
        return {"k": "modify", "node": ni, "h": r.randrange(2), "sym": sym, "value": r.choice(SCALES)}

    def g_remove(self, w, ni=None, sym=None):
        r = self.rng
        ni = self.pick_node(w) if ni is None else ni
        sym = sym or self.pick_sym(w, ni, present=True if r.random() < 0.85 else None)
        self.recent = (ni, sym)
        return {"k": "remove", "node": ni, "h": r.randrange(2), "sym": sym}

    def g_define(self, w, ni=None, sym=None):
        r = self.rng
        ni = self.pick_node(w) if ni is None else ni
        sym = sym or self.pick_sym(w, ni, present=False if r.random() < 0.8 else None)
        usym = self.pick_sym(w, ni, present=True)
        self.recent = (ni, sym)
        op = {"k": "define_unit", "node": ni, "h": r.randrange(2), "sym": sym, "v": r.choice(VALUES[:5]),
              "s": self.spell(usym), "prefixable": r.random() < 0.5,
              "form": r.choice(["tuple", "quantity", "quantity_default"])}
        if op["form"] == "quantity_default":
            op["s"] = self.spell(r.choice(["m", "s", "g", "K", "Msun", "km"]), r.choice(["atomic", "compound", "prefixed"]))
        if r.random() < 0.3:
            op["explicit_registry"] = True
        return op

    def g_edit(self, w, ni=None, sym=None):
        kind = wchoice(self.rng, [("modify", 4), ("add", 3), ("remove", 2), ("define", 1.5)])
        if kind == "modify":
            return self.g_modify(w, ni, sym)
        if kind == "add":
            return self.g_add(w, ni, sym)
        if kind == "remove":
            return self.g_remove(w, ni, sym)
        return self.g_define(w, ni, sym)

    def g_probe_string(self, w, ni=None, s=None, sym=None):
        r = self.rng
        ni = self.pick_node(w) if ni is None else ni
        if s is None:
            sym = sym or self.pick_sym(w, ni, present=True if r.random() < 0.85 else None)
            s = self.spell(sym)
        kind = wchoice(r, [("unit", 4), ("quantity", 4), ("getitem", 1.2), ("contains", 1), ("to", 2), ("list_same", 0.5),
                           ("regview", 0.4)])
        if kind == "list_same":
            return {"k": "list_same", "node": ni, "h": r.randrange(2), "s": s}
        if kind == "regview":
            names = sorted(set(self.syms + [r.choice(PREF) + x for x in self.syms] + self.defsyms[:2]))
            return {"k": "regview", "node": ni, "h": r.randrange(2), "what": r.choice(["keys", "prefixable", "contains"]),
                    "names": names}
        if kind in ("getitem", "contains") and not re.fullmatch(r"[^\W\d]\w*", s, re.UNICODE):
            kind = "unit"
        if kind == "to" and not w.heap:
            kind = "quantity"
        if kind == "unit":
            return {"k": "unit", "node": ni, "h": r.randrange(2), "s": s, "store": self.store()}
        if kind == "quantity":
            v = r.choice(VALUES) if r.random() < 0.7 else [r.choice(VALUES), r.choice(VALUES)]
            return {"k": "quantity", "node": ni, "h": r.randrange(2), "v": v, "s": s,
                    "route": r.choice(["ctor", "array", "mul", "from_string", "array_unitstr"]), "store": self.store()}
        if kind == "to":
            return {"k": "to", "x": self.slot(w), "s": s,
                    "how": r.choice(["to", "in_units", "to_value", "convert"]), "store": self.store()}
        return {"k": kind, "node": ni, "h": r.randrange(2), "s": s}

    def g_calc(self, w):
        r = self.rng
        kind = wchoice(r, [("binop", 5), ("unop", 2), ("base", 3), ("unitop", 3), ("simplify", 0.7), ("usys_get", 0.8),
                           ("units_of", 0.7), ("rebind", 1.2), ("to_unit", 1.5), ("copyobj", 0.8),
                           ("namespace", self.cfg["w_namespace"])])
        x, y = self.slot(w), self.slot(w)
        if kind == "binop":
            return {"k": "binop", "f": r.choice(["add", "sub", "mul", "div", "eq", "lt", "mul", "div", "max", "add", "sub", "mul", "div",
                                                 "concat", "stack", "where", "dot", "isclose", "ge", "ne", "mod", "floordiv",
                                                 "hypot", "minimum", "cross"]),
                    "x": x, "y": y, "store": self.store()}
        if kind == "usys_get":
            names = [d["name"] for d in w.usys_defs] + ["cgs", "mks", "imperial", "galactic", "solar"]
            return {"k": "usys_get", "name": r.choice(names), "dim": r.choice(self.USYS_DIMS), "store": self.store()}
        if kind == "unop":
            return {"k": "unop", "f": r.choice(["sqrt", "square", "neg", "pow", "recip", "cbrt"]),
                    "x": x, "p": r.choice([2, 3, -1, 0.5]), "store": self.store()}
        if kind == "base":
            return {"k": "base", "x": x, "sys": r.choice(SYSTEMS + [d["name"] for d in w.usys_defs]),
                    "how": r.choice(["in_base", "in_base", "convert_to_base", "get_base_equivalent", "in_cgs", "in_mks"]),
                    "store": self.store()}
        if kind == "unitop":
            return {"k": "unitop", "f": r.choice(["mul", "div", "pow", "eq", "same_dims", "conv", "str"]),
                    "x": x, "y": y, "p": r.choice([2, -1, 0.5]), "store": self.store()}
        if kind == "simplify":
            return {"k": "simplify", "x": x}
        if kind == "units_of":
            return {"k": "units_of", "x": x, "store": True}
        if kind == "rebind":
            return {"k": "rebind", "x": x, "node": self.pick_node(w), "h": 0, "store": self.store()}
        if kind == "to_unit":
            return {"k": "to_unit", "x": x, "u": y, "store": self.store()}
        if kind == "copyobj":
            return {"k": "copyobj", "x": x, "how": r.choice(["copy", "deepcopy", "pickle"]), "store": False}
        return {"k": "namespace", "node": self.pick_node(w), "h": 0,
                "what": r.choice(["symbols", "constants"]), "pick": [r.randrange(900) for _ in range(3)]}

    def g_chaos(self, w):
        r = self.rng
        kind = wchoice(r, [("clear_lru", 3), ("clear_sympy", 1), ("alias_handle", 1), ("restart", self.cfg["w_restart"]),
                           ("bulk_parse", 0.4)])
        if kind == "bulk_parse":
            return {"k": "bulk_parse", "node": self.pick_node(w), "h": 0, "n": r.choice([40, 300, 700])}
        if kind == "clear_lru":
            names = ["_multiply_units", "_divide_units", "_preserve_units", "_difference_units", "_power_unit",
                     "_sqrt_unit", "_square_unit", "_check_em_conversion", "_reciprocal_unit", "_cbrt_unit"]
            which = None if r.random() < 0.5 else sorted(r.sample(names, r.randrange(1, 4)))
            return {"k": "clear_lru", "which": which}
        if kind == "clear_sympy":
            return {"k": "clear_sympy"}
        if kind == "alias_handle":
            return {"k": "alias_handle", "node": self.pick_node(w), "via": r.choice(["copy", "unitcopy"])}
        return {"k": "restart", "node": self.pick_node(w, custom=True) or 0, "route": r.choice(["json", "pickle", "deepcopy", "hdf5"])}

    # -- scripts (biased placement)
    def s_stale(self, w):
        r = self.rng
        ni = self.pick_node(w, custom=True if r.random() < 0.85 else None)
        if ni is None:
            yield self.g_new_node(w, route=r.choice(["plain", "plain", "empty", "lut", "usys"]))
            ni = len(w.nodes) - 1
        sym = self.pick_sym(w, ni)
        if sym not in w.nodes[ni % len(w.nodes)].model:
            op = self.g_add(w, ni, sym)
            op["scale"] = float(op["scale"])
            yield op
        spellings = [self.spell(sym) for _ in range(r.randrange(1, 4))]
        for s in spellings:
            yield self.g_probe_string(w, ni, s=s)
        if r.random() < 0.5:
            yield {"k": "quantity", "node": ni, "h": 0, "v": r.choice(VALUES), "s": r.choice(spellings),
                   "route": "ctor", "store": True}
        if r.random() < 0.3:
            yield self.g_calc(w)
        cancel = r.random() < 0.3
        if cancel:
            # a product whose symbols cancel (kfoo * 1/m): the numeric coefficient comes from the registry
            csp = r.choice([sym, r.choice(PREF) + sym])
            yield {"k": "quantity", "node": ni, "h": 0, "v": 2.0, "s": csp, "route": "ctor", "store": True}
            c1 = w.last_stored
            yield {"k": "quantity", "node": ni, "h": 0, "v": 4.0, "s": r.choice(["m**-1", "1/s", "1/g", "1/m"]), "route": "ctor", "store": True}
            c2 = w.last_stored
            yield {"k": "binop", "f": r.choice(["mul", "mul", "div"]), "x": c1, "y": c2, "store": False}
        if r.random() < 0.12:
            # a long quiet stretch: hundreds of OTHER distinct spellings parsed between the warm-up and the edit
            # (capacity-bounded or generational memo tables behave differently only beyond their capacity)
            yield {"k": "bulk_parse", "node": ni, "h": 0, "n": r.choice([40, 300, 300, 700, 1500])}
        alias = r.random() < 0.3
        if alias:
            # a second handle on the same table (copy.copy(reg) / the registry of a Unit.copy()): created while
            # the spellings are warm, then the edit goes through one handle and the probes through the other
            yield {"k": "alias_handle", "node": ni, "via": r.choice(["copy", "unitcopy"])}
        ed = self.g_edit(w, ni, sym)
        dimflip = None
        ent = w.nodes[ni % len(w.nodes)].model.get(sym)
        if ent is not None and r.random() < 0.15:
            # the symbol keeps its number but changes dimension (modify by a quantity whose SI value equals the
            # current scale): a quantity made before and one made after then share spelling AND scale
            yield {"k": "quantity", "node": ni, "h": 0, "v": r.choice(VALUES), "s": sym, "route": "ctor", "store": True}
            dimflip = w.last_stored
            ed = {"k": "modify_q", "node": ni, "h": 0, "sym": sym, "v": float(ent[0]), "s": r.choice(["s", "kg", "K", "m", "rad"])}
        if alias:
            ed["h"] = r.choice([0, 0, 1])
        yield ed
        if dimflip is not None:
            yield {"k": "quantity", "node": ni, "h": 0, "v": r.choice(VALUES), "s": sym, "route": "ctor", "store": True}
            newq = w.last_stored
            for f in r.sample(["add", "eq", "sub", "lt", "max", "mul"], 3):
                yield {"k": "binop", "f": f, "x": dimflip, "y": newq, "store": False}
            yield {"k": "unitop", "f": r.choice(["eq", "same_dims", "conv"]), "x": dimflip, "y": newq, "p": 2, "store": False}
        if r.random() < 0.25:
            yield self.g_edit(w, ni, sym)
        if r.random() < 0.3:
            # a quantity object that predates the edit of its own symbol, used as the defining VALUE of another
            # symbol: what it is (its number times the value its unit had) is what must be stored
            yield {"k": "quantity", "node": ni, "h": 0, "v": r.choice(VALUES[:5]), "s": r.choice([sym, sym + "*s", "k" + sym]),
                   "route": "ctor", "store": True}   # (post-edit companion: same spelling, current meaning)
            other = r.choice([s_ for s_ in self.syms if s_ != sym] or ["baz"])
            have = other in w.nodes[ni % len(w.nodes)].model
            slots = list(range(len(w.heap))) or [0]
            yield {"k": "modify_q" if have and r.random() < 0.6 else "define_unit", "node": ni, "h": 0, "sym": other,
                   "x": r.choice(slots), "prefixable": r.random() < 0.5, "explicit_registry": True}
            yield self.g_probe_string(w, ni, sym=other)
        for s in spellings + [self.spell(sym)]:
            if r.random() < 0.75:
                pr = self.g_probe_string(w, ni, s=s)
                if alias and "h" in pr:
                    pr["h"] = 1 - ed.get("h", 0)
                yield pr
        if r.random() < 0.4 and w.heap:
            yield {"k": "to", "x": self.slot(w), "s": r.choice(spellings), "how": "to", "store": self.store()}
        if cancel:
            yield {"k": "quantity", "node": ni, "h": 0, "v": 2.0, "s": csp, "route": "ctor", "store": True}
            d1 = w.last_stored
            yield {"k": "binop", "f": "mul", "x": d1, "y": c2, "store": False}
            yield {"k": "binop", "f": r.choice(["eq", "add", "lt", "sub"]), "x": c1, "y": d1, "store": False}
        elif r.random() < 0.3 and w.heap:
            # a quantity made after the edit against one made before it
            yield {"k": "quantity", "node": ni, "h": 0, "v": r.choice(VALUES), "s": sym, "route": "ctor", "store": True}
            d1 = w.last_stored
            yield {"k": "binop", "f": r.choice(["eq", "add", "lt", "sub", "max"]), "x": self.slot(w), "y": d1, "store": False}

    def s_negative(self, w):
        """Unknown first, known later: spellings of a symbol the registry does NOT hold are tried (and refused), then
        the symbol is added or defined, then the same spellings are tried again - including the alternative names the
        parser rewrites before it asks the registry (joule -> J, kilojoule -> kJ).  A memo of failed lookups would
        have to be invalidated for every spelling."""
        r = self.rng
        ni = self.pick_node(w, custom=True)
        if ni is None:
            yield self.g_new_node(w, route=r.choice(["plain", "empty", "plain"]))
            ni = len(w.nodes) - 1
        sym, alias = r.choice(NEG_SYMS)
        if sym in w.nodes[ni % len(w.nodes)].model:
            yield {"k": "remove", "node": ni, "h": 0, "sym": sym}
        pool = [sym, alias, "kilo" + alias, "k" + sym, alias + "/s", sym + "**2", alias.capitalize(), "m*" + alias, "milli" + alias]
        spellings = r.sample(pool, r.randrange(2, 5))
        for s_ in spellings:
            yield {"k": r.choice(["unit", "unit", "quantity"]), "node": ni, "h": 0, "s": s_, "v": 2.0, "route": "ctor", "store": False}
        if r.random() < 0.3:
            yield self.g_chaos(w)
        if r.random() < 0.7:
            op = self.g_add(w, ni, sym)
            op["scale"] = float(op["scale"])
            op["prefixable"] = r.random() < 0.8
            yield op
        else:
            yield {"k": "define_unit", "node": ni, "h": 0, "sym": sym, "v": r.choice(VALUES[:5]), "s": r.choice(["m", "s", "kg", "K"]),
                   "form": r.choice(["tuple", "quantity"]), "prefixable": r.random() < 0.8, "explicit_registry": True}
        for s_ in spellings + r.sample(pool, 2):
            yield {"k": r.choice(["unit", "unit", "quantity"]), "node": ni, "h": r.randrange(2), "s": s_, "v": 2.0, "route": "ctor",
                   "store": False}

    def s_cross(self, w):
        r = self.rng
        route = r.choice(["plain", "plain", "lut", "usys"])
        a = self.g_new_node(w, route=route)
        yield a
        na = len(w.nodes) - 1
        b = dict(a)
        if r.random() < 0.3:
            b = self.g_new_node(w, route=r.choice(["json", "deepcopy", "pickle", "hdf5"]), src=na)
        yield b
        nb = len(w.nodes) - 1
        sym = r.choice(self.syms)
        ad = self.g_add(w, na, sym)
        ad["scale"] = float(ad["scale"])
        yield ad
        ad2 = dict(ad)
        ad2["node"] = nb
        yield ad2
        if r.random() < 0.35:
            # namespaces made from each of the two (content-equal) registries: every unit / constant in a
            # namespace belongs to the registry the namespace was made from
            what = r.choice(["symbols", "symbols", "constants"])
            pick = [r.randrange(900) for _ in range(3)]
            yield {"k": "namespace", "node": na, "h": 0, "what": what, "pick": pick}
            yield {"k": "namespace", "node": nb, "h": 0, "what": what, "pick": pick}
        s1 = self.spell(sym, r.choice(["atomic", "prefixed", "atomic"]))
        yield {"k": "quantity", "node": na, "h": 0, "v": 2.0, "s": s1, "route": "ctor", "store": True}
        ia = w.last_stored
        yield {"k": "quantity", "node": nb, "h": 0, "v": 3.0, "s": s1, "route": "ctor", "store": True}
        ib = w.last_stored
        f = r.choice(["mul", "div", "mul", "add"])
        if f in ("mul", "div") or r.random() < 0.5:
            yield {"k": "binop", "f": f, "x": ia, "y": ia, "store": True}
            yield {"k": "binop", "f": f, "x": ib, "y": ib, "store": True}
        else:
            yield {"k": "unop", "f": r.choice(["sqrt", "square", "pow", "recip"]), "x": ia, "p": 2, "store": True}
            yield {"k": "unop", "f": r.choice(["sqrt", "square", "pow", "recip"]), "x": ib, "p": 2, "store": True}
        ires = w.last_stored
        if r.random() < 0.5:
            # the same string target on both (content-equal) registries: each result must live at home
            st = r.choice([s1, sym, "k" + sym])
            yield {"k": "to", "x": ia, "s": st, "how": r.choice(["to", "in_units"]), "store": True}
            yield {"k": "to", "x": ib, "s": st, "how": r.choice(["to", "in_units"]), "store": True}
            if r.random() < 0.6:
                ires = w.last_stored
        third = None
        if r.random() < 0.5:
            # a left operand whose registry does not know the symbol: the
            # product falls back to the right operand's registry, first A's, then B's
            third = r.choice(["cm", "s", "g", "km"])
            yield {"k": "quantity", "node": 0, "h": 0, "v": 2.0, "s": third, "route": "ctor", "store": True}
            it = w.last_stored
            f3 = r.choice(["mul", "div", "mul"])
            yield {"k": "binop", "f": f3, "x": it, "y": ia, "store": True}
            yield {"k": "binop", "f": f3, "x": it, "y": ib, "store": True}
            ires = w.last_stored
        if r.random() < 0.7:
            yield self.g_modify(w, nb, sym)
        targets = [f"{sym}**2", sym, "dimensionless", f"{sym}**(1/2)"]
        if third:
            targets = [f"{third}*{sym}", f"{third}/{sym}", f"{third}*{sym}", sym]
        yield {"k": "to", "x": ires, "s": r.choice(targets), "how": "to", "store": False}
        if r.random() < 0.5:
            yield {"k": "binop", "f": r.choice(["mul", "add", "div"]), "x": ia, "y": ib, "store": True}
            yield {"k": "binop", "f": r.choice(["mul", "add", "div"]), "x": ib, "y": ia, "store": True}
        if r.random() < 0.5:
            # the same symbol, now defined differently in the two registries: sums and differences must convert
            yield self.g_modify(w, nb, sym)
            yield {"k": "quantity", "node": nb, "h": 0, "v": r.choice(VALUES), "s": s1, "route": "ctor", "store": True}
            ib2 = w.last_stored
            f2 = r.choice(["add", "sub", "add", "max", "lt"])
            yield {"k": "binop", "f": f2, "x": ia, "y": ib2, "store": True}
            yield {"k": "binop", "f": f2, "x": ib2, "y": ia, "store": True}
        if r.random() < 0.4:
            # a bare number with a registry: dimensionless in A, multiplied with an atomic unit of B
            yield {"k": "quantity", "node": na, "h": 0, "v": r.choice(VALUES), "s": r.choice(["dimensionless", "1", "percent"]),
                   "route": "ctor", "store": True}
            i1 = w.last_stored
            f1 = r.choice(["mul", "mul", "div"])
            yield {"k": "binop", "f": f1, "x": i1, "y": ib, "store": True}
            ires = w.last_stored
            yield {"k": "binop", "f": f1, "x": ib, "y": i1, "store": True}
            if r.random() < 0.6:
                yield self.g_modify(w, nb, sym)
                yield {"k": "to", "x": ires, "s": r.choice([sym, f"{sym}**-1", "k" + sym]), "how": "to", "store": False}

    def s_refusal(self, w):
        r = self.rng
        ni = self.pick_node(w, custom=True)
        if ni is None:
            yield self.g_new_node(w, route="plain")
            ni = len(w.nodes) - 1
        node = w.nodes[ni % len(w.nodes)]
        base = r.choice([s for s in self.syms + self.defsyms if s in node.model and node.model[s][4]] or ["m"])
        if base not in node.model:
            return
        der = r.choice(PREF) + base
        if r.random() < 0.7:
            yield self.g_probe_string(w, ni, s=der)
        kind = r.choice(["modify", "remove", "define", "add"])
        if kind == "modify":
            yield {"k": "modify", "node": ni, "h": 0, "sym": der, "value": r.choice(SCALES)}
        elif kind == "remove":
            yield {"k": "remove", "node": ni, "h": 0, "sym": der}
        elif kind == "define":
            yield self.g_define(w, ni, der)
        else:
            yield self.g_add(w, ni, der)
        yield self.g_probe_string(w, ni, s=der)
        yield self.g_probe_string(w, ni, s=base)

    def s_default(self, w):
        r = self.rng
        kind = wchoice(r, [("modify", 2), ("remove", 2), ("modify_q", 1), ("add", 1), ("define", 1)])
        sym = r.choice(self.defsyms + self.syms)
        if kind == "modify":
            yield {"k": "modify", "node": 0, "h": 0, "sym": sym, "value": r.choice(SCALES)}
        elif kind == "remove":
            yield {"k": "remove", "node": 0, "h": 0, "sym": sym}
        elif kind == "modify_q":
            yield {"k": "modify_q", "node": 0, "h": 0, "sym": sym, "v": 2.0, "s": "m"}
        elif kind == "add":
            op = self.g_add(w, 0, r.choice(self.syms))
            yield op
        else:
            yield self.g_define(w, 0, r.choice(self.syms))
        if kind in ("add", "define") and r.random() < 0.6:
            # a symbol the program itself put into the default registry: modify / remove must refuse it as well
            mine = [s_ for s_ in self.syms if s_ in w.nodes[0].model] or [sym]
            tgt = r.choice(mine)
            yield r.choice([{"k": "modify", "node": 0, "h": 0, "sym": tgt, "value": r.choice(SCALES)},
                            {"k": "remove", "node": 0, "h": 0, "sym": tgt},
                            {"k": "modify_q", "node": 0, "h": 0, "sym": tgt, "v": 3.0, "s": "s"}])
            yield self.g_probe_string(w, 0, sym=tgt)
        for _ in range(r.randrange(1, 3)):
            yield self.g_probe_string(w, 0, sym=sym)
        if kind in ("add", "define") and r.random() < 0.5:
            # data of a CUSTOM registry restored after the default registry was extended: what the default registry
            # holds now is not part of what was persisted
            cn = self.custom_nodes(w)
            if not cn:
                yield self.g_new_node(w, route="plain")
                cn = [len(w.nodes) - 1]
            src = r.choice(cn)
            if r.random() < 0.5:
                yield self.g_new_node(w, route=r.choice(["json", "pickle", "pickle_pair", "deepcopy", "unitcopy_deep"]), src=src)
            else:
                yield {"k": "restart", "node": src, "route": r.choice(["json", "pickle", "deepcopy"])}

    def s_restart(self, w):
        r = self.rng
        ni = self.pick_node(w, custom=True)
        if ni is None:
            yield self.g_new_node(w, route="plain")
            ni = len(w.nodes) - 1
        sym = self.pick_sym(w, ni)
        if sym not in w.nodes[ni % len(w.nodes)].model:
            yield self.g_add(w, ni, sym)
        yield self.g_probe_string(w, ni, sym=sym)
        yield {"k": "restart", "node": ni, "route": r.choice(["json", "pickle", "deepcopy", "hdf5"])}
        yield self.g_probe_string(w, ni, sym=sym)
        yield self.g_edit(w, ni, sym)
        yield self.g_probe_string(w, ni, sym=sym)

    QUOTIENT_PAIRS = [("erg", "N*m"), ("J", "dyn*cm"), ("W", "erg/s"), ("Pa", "dyn/cm**2"), ("N", "g*cm/s**2"),
                      ("km/hr", "ft/s"), ("Msun/pc**3", "g/cm**3")]

    def s_quotient(self, w):
        """Same dimension, different compound spellings that do not cancel symbol by symbol: the quotient is a
        pure number with a scale (erg / (N*m) = 1e-7), which has its own branch in __array_ufunc__."""
        r = self.rng
        ni = self.pick_node(w, custom=True)
        if ni is None:
            yield self.g_new_node(w, route=r.choice(["plain", "usys", "lut"]))
            ni = len(w.nodes) - 1
        a, b = r.choice(self.QUOTIENT_PAIRS)
        yield {"k": "quantity", "node": ni, "h": 0, "v": r.choice(VALUES), "s": a, "route": r.choice(["ctor", "array"]), "store": True}
        ia = w.last_stored
        yield {"k": "quantity", "node": ni, "h": 0, "v": r.choice(VALUES), "s": b, "route": r.choice(["ctor", "array"]), "store": True}
        ib = w.last_stored
        yield {"k": "binop", "f": "div", "x": ia, "y": ib, "store": True}
        ires = w.last_stored
        yield {"k": "binop", "f": "div", "x": ib, "y": ia, "store": True}
        yield {"k": "binop", "f": r.choice(["add", "sub", "mul"]), "x": ia, "y": ib, "store": True}
        syms = [s_ for s_ in self.syms if s_ in w.nodes[ni % len(w.nodes)].model]
        yield {"k": "to", "x": ires, "s": r.choice(["dimensionless", "percent"] + syms), "how": "to", "store": False}

    def s_empty_define(self, w):
        """define_unit / add as the very first thing done to an EMPTY registry."""
        r = self.rng
        yield self.g_new_node(w, route="empty")
        ni = len(w.nodes) - 1
        sym = r.choice(self.syms)
        if r.random() < 0.7:
            yield {"k": "define_unit", "node": ni, "h": 0, "sym": sym, "v": r.choice(VALUES[:5]),
                   "s": r.choice(["Msun", "km", "s", "erg", "K"]), "prefixable": r.random() < 0.5, "form": "quantity_default"}
        else:
            yield {"k": "add", "node": ni, "h": 0, "sym": sym, "scale": float(r.choice(SCALES)), "dims": r.choice(self.cfg["dims"]),
                   "prefixable": True}
        yield self.g_probe_string(w, ni, sym=sym)
        yield self.g_probe_string(w, 0, sym=sym)
        yield self.g_edit(w, ni, sym)
        yield self.g_probe_string(w, ni, sym=sym)

    def s_shared_units(self, w):
        """Operations whose unit rule hands back a module-level Unit object (delta_degC from degC - degC, the
        dimensionless unit from arctan2): done on arrays of a CUSTOM registry, they must leave those shared
        objects alone."""
        r = self.rng
        ni = self.pick_node(w, custom=True)
        if ni is None:
            yield self.g_new_node(w, route=r.choice(["plain", "usys", "lut"]))
            ni = len(w.nodes) - 1
        u = r.choice(["degC", "degF", "degC", "m", "K"])
        if u not in w.nodes[ni % len(w.nodes)].model:
            return
        yield {"k": "quantity", "node": ni, "h": 0, "v": [r.choice(VALUES), r.choice(VALUES)], "s": u, "route": "ctor", "store": True}
        ia = w.last_stored
        yield {"k": "quantity", "node": ni, "h": 0, "v": [r.choice(VALUES), r.choice(VALUES)], "s": u, "route": "ctor", "store": True}
        ib = w.last_stored
        for f in r.sample(["sub", "arctan2", "max", "isub", "add"], 3):
            yield {"k": "binop", "f": f, "x": ia, "y": ib, "store": self.store()}
        yield {"k": "quantity", "node": 0, "h": 0, "v": 1.0, "s": r.choice(["delta_degC", "delta_degF", "dimensionless"]),
               "route": "mul", "store": False}
        # an array built from quantities of the exported namespace, bound to the custom registry
        yield {"k": "arrlist", "node": ni, "h": 0, "names": r.sample(["km", "m", "cm", "mile", "pc"], 2), "store": self.store()}
        # the fast constructor with an existing Unit object and registry=: an exported unit, or the unit object of
        # an array that lives in another registry
        if r.random() < 0.6:
            yield {"k": "arrbypass", "node": ni, "h": 0, "name": r.choice(["km", "m", "s", "degC", "dimensionless"]),
                   "v": r.choice(VALUES), "cls": r.choice(["array", "quantity"]), "store": self.store()}
        if r.random() < 0.5 and w.heap:
            yield {"k": "arrbypass", "node": self.pick_node(w), "h": 0, "x": r.randrange(len(w.heap)), "v": r.choice(VALUES),
                   "cls": r.choice(["array", "quantity"]), "store": self.store()}
        yield {"k": "quantity", "node": 0, "h": 0, "v": 5.0, "s": "km", "route": "mul", "store": True}
        yield {"k": "to", "x": w.last_stored, "s": "m", "how": "to", "store": False}

    def s_default_copy(self, w):
        """A private copy of the DEFAULT registry (deep copy / unpickled / JSON): edits and definitions made
        through it must stay there."""
        r = self.rng
        yield self.g_new_node(w, route=r.choice(["deepcopy", "unitcopy_deep", "pickle", "json", "pickle_pair", "hdf5"]), src=0)
        ni = len(w.nodes) - 1
        sym = r.choice(self.syms)
        kind = r.choice(["define", "define", "add", "modify_default_sym"])
        if kind == "define":
            yield {"k": "define_unit", "node": ni, "h": 0, "sym": sym, "v": r.choice(VALUES[:5]),
                   "s": r.choice(["km", "g", "s", "erg"]), "prefixable": r.random() < 0.5,
                   "form": r.choice(["tuple", "quantity", "quantity_default"])}
        elif kind == "add":
            yield {"k": "add", "node": ni, "h": 0, "sym": sym, "scale": float(r.choice(SCALES)), "dims": r.choice(self.cfg["dims"]),
                   "prefixable": True}
        else:
            yield self.g_modify(w, ni, r.choice(self.defsyms))
        yield self.g_probe_string(w, 0, sym=sym)
        yield self.g_probe_string(w, ni, sym=sym)
        if w.heap:
            yield self.g_calc(w)

    EM_PAIRS = [("G", "T"), ("T", "G"), ("C", "statC"), ("statC", "C"), ("A", "statA"), ("statA", "A"), ("V", "statV"),
                ("Mx", "Wb"), ("Oe", "A")]

    def s_em(self, w):
        """cgs <-> mks electromagnetic counterparts: the conversion looks the PARTNER symbol up, so it is the
        partner that is edited between two conversions of the same object."""
        r = self.rng
        ni = self.pick_node(w, custom=True)
        if ni is None:
            yield self.g_new_node(w, route=r.choice(["plain", "usys"]))
            ni = len(w.nodes) - 1
        a, b = r.choice(self.EM_PAIRS)
        model = w.nodes[ni % len(w.nodes)].model
        if a not in model or b not in model:
            return
        sp = a if r.random() < 0.6 else r.choice(["m", "k", "M"]) + a
        yield {"k": "quantity", "node": ni, "h": 0, "v": r.choice(VALUES), "s": sp, "route": "ctor", "store": True}
        x = w.last_stored
        sysn = r.choice(["mks", "cgs", "cgs", "mks", None])
        how = r.choice(["in_base", "in_base", "in_cgs", "in_mks", "get_base_equivalent"])
        yield {"k": "base", "x": x, "sys": sysn, "how": how, "store": False}
        if r.random() < 0.3:
            yield {"k": "to", "x": x, "s": b, "how": "to", "store": False}
        tgt = b if r.random() < 0.7 else a
        yield r.choice([{"k": "modify", "node": ni, "h": 0, "sym": tgt, "value": r.choice(SCALES)},
                        {"k": "modify", "node": ni, "h": 0, "sym": tgt, "value": r.choice(SCALES)},
                        {"k": "remove", "node": ni, "h": 0, "sym": tgt}])
        yield {"k": "base", "x": x, "sys": sysn, "how": how, "store": False}
        yield {"k": "to", "x": x, "s": b, "how": "to", "store": False}
        yield {"k": "quantity", "node": ni, "h": 0, "v": r.choice(VALUES), "s": sp, "route": "ctor", "store": True}
        yield {"k": "base", "x": w.last_stored, "sys": sysn, "how": how, "store": False}

    def s_usys_define(self, w):
        """A registry whose default unit system is not mks, and symbols defined in it from (value, unit)
        tuples / quantities: what is stored is value*unit in MKS, whatever the registry converts to."""
        r = self.rng
        cands = [i for i, n in enumerate(w.nodes) if n.kind == "custom" and n.usys != "mks"]
        if cands and r.random() < 0.6:
            ni = r.choice(cands)
        else:
            yield self.g_new_node(w, route="usys")
            ni = len(w.nodes) - 1
        sym = r.choice(self.syms)
        if r.random() < 0.6:
            yield {"k": "define_unit", "node": ni, "h": 0, "sym": sym, "v": r.choice(VALUES[:5]),
                   "s": r.choice(["km", "g", "erg", "hr", "Msun", "ft", "km/s", "mK"]), "prefixable": r.random() < 0.5,
                   "form": r.choice(["tuple", "quantity", "quantity_default"])}
        else:
            yield {"k": "add", "node": ni, "h": 0, "sym": sym, "scale": float(r.choice(SCALES)), "dims": "length",
                   "prefixable": True}
            yield {"k": "modify_q", "node": ni, "h": 0, "sym": sym, "v": r.choice(VALUES[:5]),
                   "s": r.choice(["km", "cm", "ft", "g", "hr"])}
        yield self.g_probe_string(w, ni, sym=sym)
        yield {"k": "quantity", "node": ni, "h": 0, "v": r.choice(VALUES), "s": self.spell(sym), "route": "ctor", "store": True}
        yield {"k": "base", "x": w.last_stored, "sys": r.choice(SYSTEMS), "how": "in_base", "store": False}

    def s_usys(self, w):
        r = self.rng
        ni = self.pick_node(w)
        sym = self.pick_sym(w, ni, present=True)
        yield {"k": "quantity", "node": ni, "h": 0, "v": r.choice(VALUES), "s": self.spell(sym), "route": "ctor", "store": True}
        x = w.last_stored
        sysn = r.choice(SYSTEMS)
        yield {"k": "base", "x": x, "sys": sysn, "how": r.choice(["in_base", "get_base_equivalent"]), "store": False}
        if r.random() < 0.5:
            yield self.g_chaos(w)
        if w.nodes[ni % len(w.nodes)].kind == "custom" and r.random() < 0.6:
            yield self.g_edit(w, ni, sym)
        yield {"k": "base", "x": x, "sys": sysn, "how": r.choice(["in_base", "convert_to_base"]), "store": False}

    USYS_DIMS = ["velocity", "energy", "density", "length", "area", "force", "mass", "pressure", "time",
                 "specific_energy", "power", "temperature", "volume", "acceleration", "momentum", "rate", "flux"]

    def s_usys_custom(self, w):
        """A unit system bound to a custom registry ("code units"): created,
        queried, then a base symbol is edited and it is queried again."""
        r = self.rng
        ni = self.pick_node(w, custom=True)
        if ni is None:
            yield self.g_new_node(w, route=r.choice(["plain", "lut", "usys"]))
            ni = len(w.nodes) - 1
        syms = r.sample(self.syms, min(len(self.syms), 3))
        base = {}
        mine = []
        for i, (dim, fallback) in enumerate((("length", ["cm", "m", "km"]), ("mass", ["g", "kg"]), ("time", ["s", "yr"]))):
            if i < len(syms) and (dim == "length" or r.random() < 0.4):
                sym = syms[i]
                yield {"k": "add", "node": ni, "h": 0, "sym": sym, "scale": float(r.choice(SCALES)), "dims": dim,
                       "prefixable": True}
                mine.append(sym)
                base[dim] = sym if r.random() < 0.75 else r.choice(["k", "m", "M"]) + sym
            else:
                base[dim] = r.choice(fallback)
        if r.random() < 0.3:
            # a construction that is refused (arguments mixed up / unknown symbol), under a built-in's name or a new one
            yield {"k": "mkusys_bad", "node": ni, "h": 0,
                   "name": r.choice(["cgs", "mks", "galactic", "imperial", "solar", "planck", f"badsys{self.nsys}"]),
                   "len": r.choice(["g", "s", "nosuchunit", "K", "kg"]), "mass": r.choice(["g", "kg", base["mass"]]),
                   "time": r.choice(["s", base["time"]])}
            if r.random() < 0.7:
                # built-in data afterwards
                yield {"k": "quantity", "node": 0, "h": 0, "v": 3.0, "s": "km", "route": "ctor", "store": True}
                yield {"k": "base", "x": w.last_stored, "sys": r.choice(["cgs", "mks", "galactic", "imperial"]), "how": "in_base",
                       "store": False}
        name = f"simsys{self.nsys}"
        if r.random() < 0.3:
            # a name that differs from a built-in system's only by case: names are case-sensitive, so this is a
            # NEW system and "solar" / "cgs" / ... must go on meaning what they meant
            name = ["Solar", "CGS", "Mks", "Galactic", "IMPERIAL", "Planck"][self.nsys % 6] + ("" if self.nsys < 6 else str(self.nsys))
        self.nsys += 1
        yield {"k": "mkusys", "node": ni, "h": 0, "name": name, "len": base["length"], "mass": base["mass"],
               "time": base["time"], "temp": r.choice([None, None, "K", "R"])}
        d1 = r.choice(self.USYS_DIMS)
        yield {"k": "usys_get", "name": name, "dim": d1, "store": self.store()}
        yield {"k": "quantity", "node": ni, "h": 0, "v": r.choice(VALUES), "s": self.spell(r.choice(mine)), "route": "ctor",
               "store": True}
        x = w.last_stored
        yield {"k": "base", "x": x, "sys": name, "how": r.choice(["in_base", "get_base_equivalent"]), "store": False}
        if r.random() < 0.4:
            yield self.g_chaos(w)
        sym = r.choice(mine)
        if r.random() < 0.7:
            yield self.g_modify(w, ni, sym)
        else:
            yield self.g_edit(w, ni, sym)
        if r.random() < 0.3:
            yield {"k": "usys_set", "name": name, "dim": r.choice(["energy", "velocity", "pressure", "force"]),
                   "ustr": self.spell(r.choice(mine), "compound")}
        yield {"k": "usys_get", "name": name, "dim": d1, "store": self.store()}
        yield {"k": "usys_get", "name": name, "dim": r.choice(self.USYS_DIMS), "store": self.store()}
        yield {"k": "base", "x": x, "sys": name, "how": r.choice(["in_base", "convert_to_base", "get_base_equivalent"]),
               "store": False}
        if r.random() < 0.5:
            # data of ANOTHER registry reduced to this registry-bound system: the result stays with the data
            others = [i for i in self.custom_nodes(w) if i != ni % len(w.nodes)]
            if others and r.random() < 0.6:
                nj = r.choice(others)
            else:
                yield self.g_new_node(w, route=r.choice(["plain", "lut", "deepcopy"]), src=ni)
                nj = len(w.nodes) - 1
            yield {"k": "quantity", "node": nj, "h": 0, "v": r.choice(VALUES), "s": r.choice(["m", "km/s", "g*cm/s**2", "kpc"]),
                   "route": "ctor", "store": True}
            xj = w.last_stored
            yield {"k": "base", "x": xj, "sys": name, "how": r.choice(["in_base", "in_base", "get_base_equivalent"]), "store": True}
            yield {"k": "to", "x": w.last_stored, "s": r.choice(["m", "km", "dimensionless"]), "how": "to", "store": False}

    def next(self, w):
        r = self.rng
        while True:
            if self.script is not None:
                try:
                    return next(self.script)
                except StopIteration:
                    self.script = None
            c = self.cfg
            kind = wchoice(r, [
                ("s_stale", c["w_stale"]), ("s_cross", c["w_cross"]), ("s_refusal", c["w_refusal"]),
                ("s_default", c["w_default"]), ("s_restart", c["w_restart"]), ("s_usys", c["w_usys"]),
                ("s_usys_custom", c.get("w_usys_custom", 0)), ("s_usys_define", c["w_usys"] * 0.7),
                ("s_negative", 0.5 if c["profile"] == "C12" else 0.15), ("s_quotient", 0.5 * c["w_calc"] / 4.0), ("s_em", 0.6 if c["profile"] == "C12" else 0.2),
                ("s_shared_units", 0.4 if c["profile"] == "C13" else 0.15), ("s_default_copy", 0.4 if c["profile"] == "C13" else 0.1), ("s_empty_define", 0.3 if "empty" in c["routes"] or c["profile"] == "C13" else 0.1),
                ("new_node", c["w_new_node"]), ("edit", c["w_edit"]), ("probe", c["w_probe"]),
                ("calc", c["w_calc"]), ("chaos", c["w_chaos"]),
            ])
            if kind.startswith("s_"):
                self.script = getattr(self, kind)(w)
                continue
            if kind == "new_node":
                if len(w.nodes) >= c["max_nodes"]:
                    continue
                return self.g_new_node(w)
            if kind == "edit":
                return self.g_edit(w)
            if kind == "probe":
                return self.g_probe_string(w)
            if kind == "calc":
                if not w.heap:
                    return self.g_probe_string(w)
                return self.g_calc(w)
            return self.g_chaos(w)


_BULK = []


def bulk_strings():
    if not _BULK:
        from unyt._unit_lookup_table import unit_prefixes

        bases = ["m", "s", "g", "K", "Hz", "J", "W", "N", "Pa", "V", "A", "T", "eV", "pc", "yr", "G", "C", "F", "H", "lm"]
        for pw in ("", "**2", "**-1", "**3"):
            for b in bases:
                for p_ in sorted(unit_prefixes):
                    _BULK.append(p_ + b + pw)
    return _BULK


def make_config(rng, profile):
    r = rng
    c = {
        "profile": profile,
        "lru": r.choice([128, 128, 128, 2, 1, 0, 8]),
        "syms": sorted(r.sample(CUSTOM, r.randrange(2, 5))),
        "defsyms": sorted(r.sample(DEFSYMS, r.randrange(1, 4))),
        "dims": sorted(r.sample(DIMS, r.randrange(2, 6))),
        "routes": sorted(r.sample(ROUTES, r.randrange(2, 6))),
        "n_steps": r.choice([4, 6, 8, 10, 12, 16, 20, 30, 40]),
        "p_store": r.choice([0.3, 0.6, 0.9]),
        "p_custom": r.choice([0.5, 0.8, 0.95]),
        "max_nodes": r.choice([2, 3, 4]),
        "w_namespace": r.choice([0, 0, 0.3]),
        "end_probe": True,
    }
    sw = lambda lo, hi: r.choice([0, lo, hi])  # noqa: E731 - swarm: each kind on/off/heavy
    if profile == "C12":
        c.update(w_stale=r.choice([2, 4, 8]), w_cross=sw(0.5, 2), w_refusal=sw(0.7, 2), w_default=sw(0.3, 1),
                 w_restart=sw(0.3, 1), w_usys=sw(0.5, 2), w_usys_custom=sw(0.5, 1.5), w_new_node=0.5, w_edit=r.choice([1, 3]),
                 w_probe=r.choice([2, 5]), w_calc=r.choice([1, 4]), w_chaos=sw(0.5, 2))
    else:
        c.update(w_stale=r.choice([1, 2]), w_cross=r.choice([2, 4, 6]), w_refusal=sw(0.5, 1), w_default=r.choice([0.5, 1.5, 3]),
                 w_restart=sw(0.5, 2), w_usys=sw(0.3, 1), w_usys_custom=sw(0.3, 1), w_new_node=r.choice([1, 2]), w_edit=r.choice([1, 3]),
                 w_probe=r.choice([2, 4]), w_calc=r.choice([2, 5]), w_chaos=sw(0.5, 2))
        c["max_nodes"] = r.choice([3, 4])
        c["w_namespace"] = r.choice([0, 0.3, 0.8])
    return c


# ------------------------------------------------------------- simulation

END_PROBES = ["m", "km", "g*cm/s**2", "erg", "degC", "K", "pc/yr", "Msun", "dB", "mile/hr", "G", "T"]


class Sim:
    def __init__(self, chan, cfg, want):
        self.chan = chan
        self.cfg = cfg
        self.want = want  # property whose oracles decide ("C12"/"C13"/None = all)
        self.w = rw.World()
        self.snap = rw.GlobalSnapshot()
        self.log = EventLog()
        self.violations = []
        self.stats = {"ops": {}, "skipped": 0, "twin_calls": 0, "twin_skipped": 0, "within_tol": 0,
                      "exc": {}, "faults": {}}
        self.shape = []
        self.step_no = 0
        self.d_new = set()
        self.sid_seen = {}
        self.warm = {}  # (node id, string) -> step when a memo layer was seeded
        self.pre_edit_warm = set()
        self.flags = {"edit_ok": False, "stale_opportunity": False, "nodes_touched": set(),
                      "cross_or_restore": False, "edit_while_other_warm": False}
        if cfg.get("lru", 128) != 128:
            seams.rewrap_lru(cfg["lru"])
            self.fault("lru_capacity_%s" % cfg["lru"])

    def fault(self, name):
        self.stats["faults"][name] = self.stats["faults"].get(name, 0) + 1

    def violate(self, oracle, props, detail, sigparts):
        self.violations.append({
            "oracle": oracle, "props": props, "step": self.step_no, "detail": detail,
            "sig": "|".join([oracle] + [str(s) for s in sigparts]),
        })

    # -- cold
    def cold(self, req):
        self.stats["twin_calls"] += 1
        tag, payload = self.chan.cold(req)
        if tag != "ok":
            raise HarnessError(f"cold twin failed ({tag}): {payload}")
        return payload

    # -- structural ops
    def do_new_node(self, op):
        unyt, lt, dims, uo, ur, us = rw._U()
        w = self.w
        if len(w.nodes) >= 5:
            raise rw.Skip
        route = op["route"]
        src = w.nodes[op.get("src", 0) % len(w.nodes)]
        usys = "mks"
        if route == "plain":
            reg = ur.UnitRegistry()
        elif route == "empty":
            reg = ur.UnitRegistry(add_default_symbols=False)
        elif route == "usys":
            usys = op.get("usys", "cgs")
            reg = ur.UnitRegistry(unit_system=usys)
        elif route == "lut":
            reg = ur.UnitRegistry(lut=dict(src.model), add_default_symbols=False)
        elif route == "json":
            reg = ur.UnitRegistry.from_json(src.reg.to_json())
            self.flags["cross_or_restore"] = True
        elif route == "deepcopy":
            reg = copy.deepcopy(src.reg)
            self.flags["cross_or_restore"] = True
        elif route == "pickle":
            q = unyt.unyt_quantity(1.0, "", registry=src.reg)
            reg = pickle.loads(pickle.dumps(q)).units.registry
            self.flags["cross_or_restore"] = True
        elif route == "pickle_pair":
            # two objects of one registry in ONE payload (pickle memoises the shared table inside a payload):
            # each restored object must still get a registry of its own
            q1 = unyt.unyt_quantity(1.0, "", registry=src.reg)
            q2 = unyt.unyt_array([1.0, 2.0], "", registry=src.reg)
            r1, r2 = pickle.loads(pickle.dumps((q1, q2)))
            reg = r1.units.registry
            extra_reg = r2.units.registry
            self.flags["cross_or_restore"] = True
        elif route == "unitcopy_deep":
            reg = uo.Unit("", registry=src.reg).copy(deep=True).registry
            self.flags["cross_or_restore"] = True
        elif route == "hdf5":
            reg = self._via_hdf5(src.reg, op)
            self.flags["cross_or_restore"] = True
        else:
            raise HarnessError(route)
        if route in ("json", "pickle", "pickle_pair", "deepcopy", "unitcopy_deep", "lut") and src.kind == "custom":
            self.check_default_additions(reg, src.model, op)
        # contents of a new node = whatever its table holds now (C11, not
        # C12/C13, decides whether a restore reproduced its source)
        model = dict(reg.lut)
        node = rw.Node(len(w.nodes), "custom", reg, model, reg.unit_system.name)
        w.nodes.append(node)
        if route == "pickle_pair" and len(w.nodes) < 6:
            w.nodes.append(rw.Node(len(w.nodes), "custom", extra_reg, dict(extra_reg.lut), extra_reg.unit_system.name))
        return {"n": len(model), "usys": node.usys}

    def check_default_additions(self, reg, src_model, op):
        """Symbols this run added to the DEFAULT registry are not part of a custom registry's persisted contents: a
        registry restored / copied from custom data must not hold them (unless its source did)."""
        unyt, lt, dims, uo, ur, us = rw._U()
        tmpl = lt.default_unit_symbol_lut
        # (a name the run re-added to the default registry may also be a shipped symbol - "bar" - which the documented
        # fill-in of shipped defaults puts into a restored table with its SHIPPED meaning: that is the known C11 finding,
        # not a leak of the default registry's state)
        leaked = sorted(s_ for s_ in self.d_new if s_ in reg.lut and s_ not in src_model
                        and not (s_ in tmpl and rw.entry_eq(reg.lut[s_], tmpl[s_])))
        if leaked:
            self.violate("restore-leak", ["C13"],
                         {"op": op, "symbols": leaked,
                          "note": "symbols added to the default registry in this process appear in a registry restored "
                                  "from another registry's data"}, [op["k"], op.get("route"), "default-additions-injected"])

    def _via_hdf5(self, reg, op):
        """write_hdf5 / from_hdf5 (unyt's real code) against the in-process h5py stand-in: the registry of the array
        that comes back.  One "file" per step; group / dataset names and the caller's info dict vary with the step."""
        unyt, lt, dims, uo, ur, us = rw._U()
        from . import fakeh5

        fakeh5.install()
        n = self.step_no
        fn = "sim-%d.h5" % n
        kw = {}
        if n % 2:
            kw["dataset_name"] = "d%d" % n
        if n % 3 == 0:
            kw["group_name"] = "g%d" % n
        a = unyt.unyt_array([1.0, 2.0], "", registry=reg)
        wkw = dict(kw)
        if n % 5 == 0:
            wkw["info"] = {"note": "x"}
        a.write_hdf5(fn, **wkw)
        self.w.probe("hdf5_stub_roundtrip")
        return unyt.unyt_array.from_hdf5(fn, **kw).units.registry

    def do_bulk_parse(self, op):
        """n distinct unit strings (SI prefix x built-in symbol x power) constructed against one registry: volume, not
        content - nothing is compared here; what it changes is the fill level of every memo table."""
        unyt, lt, dims, uo, ur, us = rw._U()
        node = self.w.node(op)
        reg = self.w.handle(op, node)
        ok = 0
        for s_ in bulk_strings()[: int(op["n"])]:
            try:
                uo.Unit(s_, registry=reg)
                ok += 1
            except Exception:  # symbols this registry does not have (edited / empty tables): not the point here
                pass
        self.w.probe("bulk_parse_strings", ok)
        return {"parsed": ok}

    def do_alias(self, op):
        unyt, lt, dims, uo, ur, us = rw._U()
        node = self.w.node(op)
        if len(node.handles) >= 3:
            raise rw.Skip
        if op.get("via") == "unitcopy":
            h = uo.Unit("", registry=node.reg).copy().registry
        else:
            h = copy.copy(node.reg)
        node.handles.append(h)
        return {"handles": len(node.handles)}

    def do_restart(self, op):
        unyt, lt, dims, uo, ur, us = rw._U()
        w = self.w
        node = w.node(op)
        if node.kind != "custom":
            raise rw.Skip
        route = op["route"]
        if route == "json":
            reg = ur.UnitRegistry.from_json(node.reg.to_json())
        elif route == "pickle":
            q = unyt.unyt_quantity(1.0, "", registry=node.reg)
            reg = pickle.loads(pickle.dumps(q)).units.registry
        elif route == "hdf5":
            reg = self._via_hdf5(node.reg, op)
        else:
            reg = copy.deepcopy(node.reg)
        if route in ("json", "pickle", "deepcopy"):
            self.check_default_additions(reg, node.model, op)
        w.drop_node_objects(node)
        node.handles = [reg]
        node.model = dict(reg.lut)
        node.usys = reg.unit_system.name
        self.warm = {k: v for k, v in self.warm.items() if k[0] != node.id}
        self.flags["cross_or_restore"] = True
        self.fault("restart_" + route)
        return {"n": len(node.model)}

    # -- one step
    def step(self, op):
        w = self.w
        k = op["k"]
        self.step_no += 1
        rec = {"step": self.step_no, "op": op}
        try:
            if k == "new_node":
                rec["out"] = self.do_new_node(op)
            elif k == "alias_handle":
                rec["out"] = self.do_alias(op)
            elif k == "bulk_parse":
                rec["out"] = self.do_bulk_parse(op)
            elif k == "restart":
                rec["out"] = self.do_restart(op)
            elif k == "clear_lru":
                rec["out"] = seams.clear_lru(op.get("which"))
                self.fault("lru_clear")
            elif k == "clear_sympy":
                seams.clear_sympy_cache()
                self.fault("sympy_cache_loss")
                rec["out"] = None
            elif k in rw.EDITS:
                rec["out"] = self.do_edit(op)
            elif k in rw.PROBES:
                rec["out"] = self.do_probe(op)
            else:
                raise HarnessError(f"unknown op {k}")
        except rw.Skip:
            self.stats["skipped"] += 1
            rec["out"] = "skipped"
            self.log.add(rec)
            return rec
        self.stats["ops"][k] = self.stats["ops"].get(k, 0) + 1
        self.after_step(op)
        self.log.add(rec)
        return rec

    def mark_warm(self, nid, s):
        self.warm.setdefault((nid, s), self.step_no)

    def do_edit(self, op):
        w = self.w
        k = op["k"]
        node = w.node(op)
        sym = op["sym"]
        if "x" in op:
            if not w.heap:
                raise rw.Skip
            rw._heap_quantity(w, op)  # Skip unless the slot holds a plain scalar quantity
        req = rw.make_cold_request(w, op)
        if req is None:
            raise rw.Skip
        cold = self.cold(req)
        warm, _ = rw.run_call(rw.EDITS[k], w, op)
        self.shape.append(k)
        self.flags["nodes_touched"].add(node.id)
        if "exc" in warm:
            self.stats["exc"][warm["exc"]] = self.stats["exc"].get(warm["exc"], 0) + 1
        # I5: the default registry refuses modify/remove, always
        if node.kind == "default" and k in ("modify", "modify_q", "remove"):
            self.fault("edit_on_default")
            # refusing = raising (TypeError from the registry itself, or the
            # error of building the quantity argument) and changing nothing
            # (the table audit below checks the latter)
            if warm.get("exc") is None:
                self.violate("default-not-readonly", ["C13"], {"op": op, "warm": warm}, [k])
        if warm.get("exc") != cold.get("exc"):
            self.violate("edit-refusal", ["C12"],
                         {"op": op, "warm": warm.get("exc"), "fresh": cold.get("exc"),
                          "note": "whether an edit is refused depends on history"},
                         [k, rw_class(sym, node), warm.get("exc"), cold.get("exc")])
        # expected new contents: what the same edit does to a fresh registry
        if "exc" not in cold:
            ent = cold["entry"]
            if ent is None:
                node.model.pop(sym, None)
            else:
                node.model[sym] = rw.entry_unwire(ent)
            if cold["others_changed"]:
                self.violate("edit-semantics", ["C12"], {"op": op, "also_changed": cold["others_changed"]}, [k, "others"])
            # independent semantics for the three simple edits
            exp = None
            if k == "add" and isinstance(op["scale"], float):
                exp = (op["scale"], str(rw._dims(op["dims"])), float(op.get("offset") or 0.0), bool(op.get("prefixable", False)))
            if k == "modify":
                exp = (float(op["value"]), None, None, None)
            if exp is not None and ent is not None:
                got = (ent[0], str(rw.from_srepr(ent[1])), ent[2], ent[4])
                bad = [i for i, e in enumerate(exp) if e is not None and e != got[i]]
                if bad:
                    self.violate("edit-semantics", ["C12"], {"op": op, "expected": exp, "fresh": got}, [k, "value"])
            if cold.get("expected") and ent is not None:
                ev, edims = cold["expected"]
                got = (ent[0], str(rw.from_srepr(ent[1])))
                if not rw.close(float(got[0]), float(ev), "float64") or got[1] != edims:
                    self.violate("edit-semantics", ["C12"],
                                 {"op": op, "expected_mks_value_and_dimensions": cold["expected"], "fresh_entry": got,
                                  "node_unit_system": node.usys,
                                  "note": "the stored definition is not value*unit expressed in MKS"}, [k, "value"])
            if k == "remove" and ent is not None:
                self.violate("edit-semantics", ["C12"], {"op": op, "fresh_entry": ent}, [k, "still-there"])
            self.flags["edit_ok"] = True
            if node.kind == "default":
                self.d_new.add(sym)
                w.default_touched = True
            # which warm spellings does this edit make stale candidates
            others_warm = False
            for (nid, s), st in self.warm.items():
                if nid == node.id:
                    if any(sym == t or (t.endswith(sym) and t != sym) for t in tokens(s)):
                        self.pre_edit_warm.add((nid, s))
                else:
                    others_warm = True
            if others_warm:
                self.flags["edit_while_other_warm"] = True
        # the registry's memoised digest (public unit_system_id, which feeds Unit.__hash__) must describe the
        # table as it is now.  Read through the private attribute so that the check itself fills no memo.
        used = w.handle(op, node)
        if k == "define_unit" and node.kind == "default" and not op.get("explicit_registry"):
            used = node.handles[0]  # define_unit without registry= goes to default_unit_registry itself
        for h in node.handles:
            sid = getattr(h, "_unit_system_id", None)
            if sid is not None and sid != table_digest(h.lut):
                which = "edited-handle" if h is used else "other-handle"
                self.violate("stale-registry-id", ["C12"],
                             {"op": op, "handle": which,
                              "note": "unit_system_id is the digest of an earlier table: it (and hash(Unit)) "
                                      "differ from a fresh registry with the same contents"},
                             [k, which] if h is used else [which])
                break
        return {"warm": warm, "fresh": {kk: vv for kk, vv in cold.items() if kk != "others_changed"}}

    def do_probe(self, op):
        w = self.w
        k = op["k"]
        fn = rw.PROBES[k]
        # resolve operands first so that Skip comes before anything else
        nids = set()
        if "node" in op:
            nids.add(w.node(op).id)
        for f in rw.OPERAND_FIELDS:
            if f in op:
                x = w.operand(op, f)
                nids.add(w.node_of(x.units.registry))
        req = rw.make_cold_request(w, op)
        self._xslot = w.slot(op, "x") if ("x" in op and w.heap) else None
        if "s" in op:
            cls = spelling_class(op["s"])
            self.shape.append(f"{k}:{cls}")
            for nid in nids:
                if isinstance(nid, int):
                    if (nid, op["s"]) in self.pre_edit_warm:
                        self.flags["stale_opportunity"] = True
                        w.probe("probe_of_spelling_warm_before_edit")
        else:
            self.shape.append(f"{k}:{op.get('f', op.get('how', ''))}")
        int_nids = sorted(n for n in nids if isinstance(n, int))
        for nid in int_nids:
            self.flags["nodes_touched"].add(nid)
        cross = len(set(nids)) > 1
        if cross:
            self.flags["cross_or_restore"] = True
            w.probe("cross_node_call")
        lru_before = seams.lru_stats() if cross or k in ("binop", "unop", "base", "to") else None
        si_before = {f: si_image(w.operand(op, f)) for f in rw.OPERAND_FIELDS if f in op} \
            if k in ("to", "to_unit", "base", "binop", "unop") else None
        warm, res = rw.run_call(fn, w, op)
        if si_before is not None and res is not None and "exc" not in warm:
            self.check_conservation(op, si_before, res)
        if lru_before is not None:
            after = seams.lru_stats()
            if any(after[n][0] > lru_before.get(n, (0, 0, 0))[0] for n in after):
                w.probe("lru_hit")
            if any(after[n][2] < lru_before.get(n, (0, 0, 0))[2] or
                   (after[n][1] > lru_before.get(n, (0, 0, 0))[1] and after[n][2] == lru_before.get(n, (0, 0, 0))[2]
                    and after[n][2] > 0) for n in after):
                w.probe("lru_eviction")
        if (k, op.get("how")) in rw.INPLACE_TARGET or k == "simplify":
            warm["target"] = rw.describe(w.heap[self._xslot], w)
        if "exc" in warm:
            self.stats["exc"][warm["exc"]] = self.stats["exc"].get(warm["exc"], 0) + 1
        if "s" in op:
            for nid in int_nids:
                self.mark_warm(nid, op["s"])
        out = {"warm": warm}
        if req is None:
            self.stats["twin_skipped"] += 1
        else:
            cold = self.cold(req)
            tstats = {}
            if "no_twin" in cold:
                self.stats["twin_skipped"] += 1
                w.probe("no_twin_unit_system_not_rebuildable")
                cold = warm
            diffs = rw.compare(warm, cold, stats=tstats)
            self.stats["within_tol"] += tstats.get("within_tol", 0)
            if diffs:
                props = ["C12"]
                fields = sorted(set(re.sub(r"\[\d+\]", "[]", d) for d in diffs))
                if any(d.endswith(".node") for d in diffs):
                    props.append("C13")
                sc = spelling_class(op["s"]) if "s" in op else op.get("f", op.get("how", ""))
                self.violate("twin", props,
                             {"op": op, "warm": warm, "fresh": cold, "differs": diffs,
                              "note": "same call, same registry contents, different outcome than in a history-free process"},
                             [k, sc, ",".join(fields)])
            out["fresh_equal"] = not diffs
        # I4: registry of a cross-node result
        if cross and res is not None and k in ("binop", "unitop", "to_unit") and hasattr(res, "units"):
            self.check_cross(op, res)
        # closure: operands of one registry give a result in that registry
        if (not cross and len(int_nids) == 1 and res is not None and hasattr(res, "units")
                and k in ("binop", "unop", "unitop", "to", "base", "quantity", "unit", "usys_get") and "exc" not in warm):
            nr = w.node_of(res.units.registry)
            # module-level units the unit rules hand out on the pinned tree: delta_degC / delta_degF from
            # degC - degC, the dimensionless NULL_UNIT from arctan2
            delta = str(res.units.expr) in ("delta_degC", "delta_degF") or (op.get("f") == "arctan2" and str(res.units.expr) == "1")
            if nr != int_nids[0] and not (delta and nr == 0) and k != "usys_get":
                self.violate("cross-registry", ["C13"],
                             {"op": op, "operands_node": int_nids[0], "result_node": nr, "result_unit": str(res.units.expr),
                              "note": "every operand lives in one registry, the result is bound to another"},
                             [k, op.get("f", op.get("how", "")), "left-home"])
        if op.get("store") and res is not None and "exc" not in warm:
            w.store(res)
        if (k, op.get("how")) in rw.INPLACE_TARGET and "exc" not in warm:
            i = self._xslot
            w.heap_meta[i] = rw.unit_snapshot(w.heap[i].units)
        return out

    def check_conservation(self, op, before, res):
        """The physical quantity is conserved: a conversion returns the same
        SI value as its input, a sum / difference / product / quotient the
        sum / ... of the SI values of its operands - with each operand's SI
        value taken from its OWN unit object (the value it had when it was
        created), independently of which registries, memo tables or edit
        histories are involved.  Only for units without offset and outside
        the logarithmic dimension; computed from data and base_value alone,
        so it does not share a code path with the conversion being checked."""
        k = op["k"]
        out = si_image(res)
        x = before.get("x")
        if out is None or x is None:
            return
        exp = None
        if k in ("to", "to_unit", "base"):
            if op.get("how") in ("to_value", "get_base_equivalent"):
                return
            if out[1] != x[1]:
                return  # cgs <-> mks electromagnetic counterparts: another dimension, base values not comparable
            exp = x
        elif k == "unop":
            f = op["f"]
            with np.errstate(all="ignore"):
                if f == "sqrt":
                    exp = (x[0] ** 0.5, None)
                elif f == "square":
                    exp = (x[0] ** 2, None)
                elif f == "pow":
                    exp = (x[0] ** op["p"], None)
                elif f == "recip":
                    exp = (1.0 / x[0], None)
                elif f == "cbrt":
                    exp = (np.cbrt(x[0]), None)
                elif f == "neg":
                    exp = (-x[0], None)
        elif k == "binop":
            y = before.get("y")
            if y is None:
                return
            f = op["f"]
            with np.errstate(all="ignore"):
                if f == "add" and x[1] == y[1]:
                    exp = (x[0] + y[0], x[1])
                elif f == "sub" and x[1] == y[1]:
                    exp = (x[0] - y[0], x[1])
                elif f == "mul":
                    exp = (x[0] * y[0], None)
                elif f == "div":
                    exp = (x[0] / y[0], None)
        if exp is None:
            return
        a, b = np.asarray(out[0], dtype="float64"), np.asarray(exp[0], dtype="float64")
        if a.shape != b.shape:
            try:
                b = np.broadcast_to(b, a.shape)
            except ValueError:
                return
        scale = max(float(np.max(np.abs(b))) if b.size else 0.0,
                    float(np.max(np.abs(x[0]))) if np.size(x[0]) else 0.0, 1e-300)
        fin = np.isfinite(a) & np.isfinite(b)
        self.w.probe("conservation_checked")
        if fin.any() and float(np.max(np.abs(a[fin] - b[fin]))) > 1e-9 * scale:
            self.violate("conservation", ["C12", "C13"],
                         {"op": op, "si_value_of_result": a.ravel().tolist()[:6], "expected_from_operands": b.ravel().tolist()[:6],
                          "note": "result unit x result numbers is not the physical quantity the operands carry"},
                         [k, op.get("f", op.get("how", "")), "si"])

    def check_cross(self, op, res):
        w = self.w
        x = w.operand(op, "x")
        y = w.operand(op, "u" if op["k"] == "to_unit" else "y") if ("y" in op or "u" in op) else None
        if y is None:
            return
        nx = w.node_of(x.units.registry)
        ny = w.node_of(y.units.registry)
        nr = w.node_of(res.units.registry)
        handed_out = (str(res.units.expr) in ("delta_degC", "delta_degF")
                      or (op.get("f") == "arctan2" and str(res.units.expr) == "1")) and nr == 0
        if nr not in (nx, ny) and not handed_out:
            # (handed_out: the module-level delta_degC / delta_degF / dimensionless unit that the unit rules of
            # the pinned tree return for degC - degC and arctan2, whatever registry the operands live in)
            self.violate("cross-registry", ["C13"],
                         {"op": op, "left": nx, "right": ny, "result": nr,
                          "note": "result of a mixed-registry operation is bound to a third registry"},
                         [op["k"], op.get("f", ""), "third"])
        elif (nr != nx and isinstance(nx, int) and op["k"] in ("binop", "unitop")
              and hasattr(x, "is_Unit") == hasattr(y, "is_Unit")
              and not (res.units is getattr(y, "units", None) and "temperature" in str(res.units.dimensions))):
            # (res.units is y.units: the temperature rule of the pinned tree - K or delta_degC (+) degC gives the
            # right operand's unit OBJECT, e.g. the delta_degC handed out by an earlier degC - degC plus a degC)
            # array (op) array and Unit (op) Unit: the right operand's registry is allowed only as the
            # documented fallback - the left registry cannot resolve a symbol of one of the operands
            # (array.py _multiply_units / _divide_units).  Not applied to x.to(unit_of_B) (the caller asked
            # for that very unit object) nor to Unit * array (a label applied to data: the data's registry
            # comes first by construction, unit_object.py Unit.__mul__).
            left = next(n for n in w.nodes if n.id == nx)
            # (the symbols of the unit EXPRESSIONS, not a word regex over their text: "%" is a symbol too)
            syms = sorted({str(t) for t in getattr(x.units.expr, "free_symbols", ())}
                          | {str(t) for t in getattr(y.units.expr, "free_symbols", ())})
            unresolved = [t for t in syms if t not in left.model and rw.derive(t, left.model) is None]
            if not unresolved:
                self.violate("cross-registry", ["C13"],
                             {"op": op, "left": nx, "right": ny, "result": nr, "symbols": syms,
                              "note": "the left operand's registry resolves every symbol of the result, yet the "
                                      "result is bound to the right operand's registry"},
                             [op["k"], op.get("f", ""), "right-not-left"])

    def after_step(self, op):
        """Invariants checked after every executed step."""
        w = self.w
        k = op["k"]
        target = None
        if k in rw.EDITS:
            target = w.node(op).id
        # the memoised registry id (public unit_system_id, feeds hash(Unit)) of EVERY registry must describe that
        # registry's own table - also when it was (re)filled by a call made through another registry.  The digest is
        # recomputed only when the memo's value changed since it was last looked at.
        for n in w.nodes:
            for hi, h in enumerate(n.handles):
                sid = getattr(h, "_unit_system_id", None)
                if sid is None or self.sid_seen.get((n.id, hi)) == sid:
                    continue
                self.sid_seen[(n.id, hi)] = sid
                if k in rw.EDITS and n.id == target:
                    continue  # judged by do_edit (edited-handle / other-handle signatures)
                if sid != table_digest(h.lut):
                    self.violate("stale-registry-id", ["C12", "C13"],
                                 {"op": op, "node": n.id, "handle": hi,
                                  "note": "unit_system_id of this registry is not the digest of its own table: it was "
                                          "memoised from another table (hash(Unit) then differs from a fresh registry "
                                          "with the same contents)"}, ["memo-of-another-table"])
        # I3 identities
        luts = {}
        unyt, lt, dims, uo, ur, us = rw._U()
        for n in w.nodes:
            if id(n.reg.lut) in luts:
                self.violate("identity", ["C13"], {"nodes": [luts[id(n.reg.lut)], n.id], "op": op}, ["shared-table"])
            luts[id(n.reg.lut)] = n.id
            if n.reg.lut is lt.default_unit_symbol_lut:
                self.violate("identity", ["C13"], {"node": n.id, "op": op}, ["is-default-table-module"])
        # I1 / oracle 2: raw tables vs models
        for n in w.nodes:
            for kind, key in rw.audit_node(n, w):
                if kind == "stale-derived" or (kind == "stray" and n.id == target):
                    # confirm through the public API before calling it a violation
                    conf = self.confirm_resolution(n, key)
                    if conf is None:
                        continue
                    props = ["C12"] if (n.id == target or n.edited_since(self)) else ["C13"]
                    self.violate("table-stale", props, {"node": n.id, "key": key, "op": op, **conf}, [k, kind])
                else:
                    props = ["C12"] if n.id == target else ["C13"]
                    self.violate("table", props,
                                 {"node": n.id, "key": key, "kind": kind, "op": op,
                                  "table": rw.entry_plain(n.reg.lut[key]) if key in n.reg.lut else None,
                                  "model": rw.entry_plain(n.model[key]) if key in n.model else None},
                                 [k, kind, "target" if n.id == target else "bystander"])
        # I2 globals
        for kind, key in self.snap.check(allowed_new=self.d_new):
            self.violate("global", ["C13"], {"kind": kind, "what": key, "op": op}, [k, kind])
        # oracle 4: objects created earlier keep their value
        inplace = None
        if (k, op.get("how")) in rw.INPLACE_TARGET or k == "simplify":
            inplace = self._xslot
        for i, (obj, meta) in enumerate(zip(w.heap, w.heap_meta)):
            u = obj.units
            if i == inplace and u is not meta[0]:
                continue
            now = rw.unit_snapshot(u)
            changed = []
            if u is not meta[0]:
                changed.append("unit-rebound")
            elif now[1] != meta[1] or now[2] != meta[2] or not (now[3] is meta[3] or now[3] == meta[3]):
                changed.append("value")
            elif now[4] != meta[4]:
                changed.append("expr")
            if changed:
                if i == inplace:
                    w.heap_meta[i] = now
                    if changed == ["expr"] and k == "simplify":
                        continue
                self.violate("old-object-changed", ["C12"],
                             {"slot": i, "op": op, "what": changed, "before": [meta[1], meta[2], str(meta[3]), meta[4]],
                              "after": [now[1], now[2], str(now[3]), now[4]]}, [k, changed[0]])
                w.heap_meta[i] = now

    def confirm_resolution(self, n, key):
        """A table entry the contents do not imply: does the public API
        serve it?  (reg[key] is a read; it writes nothing new here because
        the key is already in the table.)"""
        imp = rw.derive(key, n.model)
        try:
            e = n.reg[key]
            got = rw.entry_plain(e)
        except Exception as ex:
            got = type(ex).__name__
        want = rw.entry_plain(imp) if imp is not None else "SymbolNotFoundError"
        if got == want:
            return None
        return {"resolves_to": got, "contents_imply": want}

    def end_of_run(self):
        """Resolution digest of every node over a fixed probe set + every
        symbol the run used, against a fresh registry with the model."""
        w = self.w
        strings = list(END_PROBES)
        for s in self.cfg["syms"] + self.cfg["defsyms"]:
            strings += [s, "k" + s, s + "*s"]
        for n in w.nodes:
            # one pristine child per node answers the whole probe set (a fresh
            # registry per string inside it); the warm side runs afterwards so
            # that the request describes the node before the probes warm it
            req = {"op": {"k": "unit_batch", "node": n.id, "strings": strings}, "nodes": [n.wire()],
                   "operands": {}, "usys_defs": []}
            colds = self.cold(req)["batch"]
            for s, cold in zip(strings, colds):
                op = {"k": "unit", "node": n.id, "h": 0, "s": s}
                self.step_no += 1
                warm, _ = rw.run_call(rw.PROBES["unit"], w, op)
                diffs = rw.compare(warm, cold)
                if diffs:
                    edited = n.id in self.flags["nodes_touched"]
                    self.violate("final-resolution", ["C12"] if edited else ["C13"],
                                 {"node": n.id, "s": s, "warm": warm, "fresh": cold, "differs": diffs},
                                 ["unit", spelling_class(s), ",".join(sorted(set(diffs)))])
                    return
        for kind, key in self.snap.check(allowed_new=self.d_new):
            self.violate("global", ["C13"], {"kind": kind, "what": key, "op": "end"}, ["end", kind])


def rw_class(sym, node):
    if sym in node.model:
        return "explicit"
    if rw.derive(sym, node.model) is not None:
        return "derived"
    return "unknown"


def _edited_since(self, sim):
    return self.id in sim.flags["nodes_touched"]


rw.Node.edited_since = _edited_since


# ---------------------------------------------------------------- sweep
# Systematic part of C12 (the property text: "exhaustively up to a bounded
# length over a small symbol alphabet, and randomly beyond"): every
# (warm-up, edit, probe, volatile-state fault, lru capacity) combination of a
# small catalogue on one custom registry with one prefixable symbol `foo`.
# Same executor, same oracles, same replay format as the seeded runs.

SWEEP_SPELLINGS = ["foo", "kfoo", "foo*s", "kfoo**2/s", "foo**2", "sqrt(foo)", "2*foo", "g*foo/s**2", "Mfoo", "foo/kfoo"]
SWEEP_WARM = [None] + [(s_, r_) for s_ in SWEEP_SPELLINGS for r_ in ("unit", "quantity")] + [("", "cancel")]
SWEEP_PROBE = [(s_, r_) for s_ in SWEEP_SPELLINGS for r_ in ("unit", "to")] + [("", "sqrt1"), ("", "pow0"), ("", "mul01"), ("", "div10"),
                                                                                        ("", "cancel"), ("", "eqnew"), ("", "addnew")]
SWEEP_EDITS = [
    [{"k": "modify", "sym": "foo", "value": 3.0}],
    [{"k": "modify_q", "sym": "foo", "v": 2.0, "s": "m"}],
    [{"k": "add", "sym": "foo", "scale": 5.0, "dims": "length", "prefixable": True}],
    [{"k": "add", "sym": "foo", "scale": 5.0, "dims": "mass", "prefixable": True}],
    [{"k": "add", "sym": "foo", "scale": 2.0, "dims": "length", "prefixable": False}],
    [{"k": "remove", "sym": "foo"}],
    [{"k": "remove", "sym": "foo"}, {"k": "add", "sym": "foo", "scale": 7.0, "dims": "length", "prefixable": True}],
    [{"k": "add", "sym": "kfoo", "scale": 9.0, "dims": "time", "prefixable": False}],
    [{"k": "define_unit", "sym": "Mfoo", "v": 3.0, "s": "m", "form": "tuple", "prefixable": False}],
    [{"k": "modify", "sym": "kfoo", "value": 3.0}],
    [{"k": "remove", "sym": "kfoo"}],
    [{"k": "modify_q", "sym": "foo", "v": 2.0, "s": "s"}],  # same scale, another dimension
]
SWEEP_CHAOS = [None, {"k": "clear_lru", "which": None}, {"k": "restart", "node": 1, "route": "json"}]
SWEEP_LRU = [128, 1]
SWEEP_TOTAL = len(SWEEP_WARM) * len(SWEEP_EDITS) * len(SWEEP_PROBE) * len(SWEEP_CHAOS) * len(SWEEP_LRU)


def sweep_case(index):
    i = index % SWEEP_TOTAL
    i, lru = divmod(i, len(SWEEP_LRU))
    i, ch = divmod(i, len(SWEEP_CHAOS))
    i, pr = divmod(i, len(SWEEP_PROBE))
    i, ed = divmod(i, len(SWEEP_EDITS))
    wa = i % len(SWEEP_WARM)
    ops = [{"k": "new_node", "route": "plain"},
           {"k": "add", "node": 1, "h": 0, "sym": "foo", "scale": 2.0, "dims": "length", "prefixable": True},
           # a quantity created before the edit: it must keep its value, and converting it afterwards must use
           # the registry's current contents for the target
           {"k": "quantity", "node": 1, "h": 0, "v": 2.0, "s": "foo", "route": "ctor", "store": True},
           {"k": "quantity", "node": 1, "h": 0, "v": 9.0, "s": "foo**2", "route": "ctor", "store": True}]
    w = SWEEP_WARM[wa]
    if w is not None and w[1] == "cancel":
        ops.append({"k": "quantity", "node": 1, "h": 0, "v": 2.0, "s": "kfoo", "route": "ctor", "store": True})   # slot 2
        ops.append({"k": "quantity", "node": 1, "h": 0, "v": 4.0, "s": "m**-1", "route": "ctor", "store": True})  # slot 3
        ops.append({"k": "binop", "f": "mul", "x": 2, "y": 3, "store": False})
    elif w is not None:
        ops.append({"k": w[1], "node": 1, "h": 0, "s": w[0], "v": 1.0, "route": "ctor", "store": False})
    for e in SWEEP_EDITS[ed]:
        ops.append(dict(e, node=1, h=0))
    if SWEEP_CHAOS[ch] is not None:
        ops.append(dict(SWEEP_CHAOS[ch]))
    s_, r_ = SWEEP_PROBE[pr]
    if r_ == "to":
        ops.append({"k": "to", "x": 0, "s": s_, "how": "to", "store": False})
    elif r_ == "sqrt1":
        ops.append({"k": "unop", "f": "sqrt", "x": 1, "p": 2, "store": False})
    elif r_ == "pow0":
        ops.append({"k": "unop", "f": "pow", "x": 0, "p": 2, "store": False})
    elif r_ == "mul01":
        ops.append({"k": "binop", "f": "mul", "x": 0, "y": 1, "store": False})
    elif r_ == "div10":
        ops.append({"k": "binop", "f": "div", "x": 1, "y": 0, "store": False})
    elif r_ == "cancel":
        n0 = 4 if (w is not None and w[1] == "cancel") else 2
        ops.append({"k": "quantity", "node": 1, "h": 0, "v": 2.0, "s": "kfoo", "route": "ctor", "store": True})
        ops.append({"k": "quantity", "node": 1, "h": 0, "v": 4.0, "s": "m**-1", "route": "ctor", "store": True})
        ops.append({"k": "binop", "f": "mul", "x": n0, "y": n0 + 1, "store": False})
    elif r_ in ("eqnew", "addnew"):
        n0 = 4 if (w is not None and w[1] == "cancel") else 2
        ops.append({"k": "quantity", "node": 1, "h": 0, "v": 2.0, "s": "foo", "route": "ctor", "store": True})
        ops.append({"k": "binop", "f": "eq" if r_ == "eqnew" else "add", "x": 0, "y": n0, "store": False})
    else:
        ops.append({"k": "unit", "node": 1, "h": 0, "s": s_, "store": False})
    cfg = {"profile": "C12", "lru": SWEEP_LRU[lru], "syms": ["foo", "kfoo", "Mfoo"], "defsyms": ["m"], "dims": ["length"],
           "routes": ["plain"], "n_steps": len(ops), "p_store": 0.0, "p_custom": 1.0, "max_nodes": 2, "w_namespace": 0,
           "end_probe": True, "sweep": True}
    return ops, cfg


# Second catalogue: histories with TWO edits and a warm-up before each (the bounded-length part of the quantifier,
# one step deeper: re-add after remove, modify after re-add, an explicit `kfoo` added and removed again, an edit
# whose invalidation is undone or masked by the next one).  Indices SWEEP_TOTAL .. SWEEP_TOTAL + SWEEP2_TOTAL - 1.
SWEEP2_WARM = [None, ("kfoo", "unit"), ("foo*s", "unit"), ("", "cancel")]
SWEEP2_PROBE = [("foo", "unit"), ("kfoo", "unit"), ("foo*s", "unit"), ("Mfoo", "unit"), ("foo", "to"), ("", "mul01"), ("", "eqnew"),
                ("", "cancel")]
SWEEP2_TOTAL = len(SWEEP2_WARM) ** 2 * len(SWEEP_EDITS) ** 2 * len(SWEEP2_PROBE)
SWEEP_ALL = SWEEP_TOTAL + SWEEP2_TOTAL


def _sweep_warm(ops, w):
    """Append the warm-up `w`; returns the number of heap slots it added."""
    if w is None:
        return 0
    if w[1] == "cancel":
        ops.append({"k": "quantity", "node": 1, "h": 0, "v": 2.0, "s": "kfoo", "route": "ctor", "store": True})
        ops.append({"k": "quantity", "node": 1, "h": 0, "v": 4.0, "s": "m**-1", "route": "ctor", "store": True})
        n = sum(1 for o in ops if o.get("store"))
        ops.append({"k": "binop", "f": "mul", "x": n - 2, "y": n - 1, "store": False})
        return 2
    ops.append({"k": w[1], "node": 1, "h": 0, "s": w[0], "v": 1.0, "route": "ctor", "store": False})
    return 0


def sweep2_case(index):
    i = index % SWEEP2_TOTAL
    i, pr = divmod(i, len(SWEEP2_PROBE))
    i, e2 = divmod(i, len(SWEEP_EDITS))
    i, w2 = divmod(i, len(SWEEP2_WARM))
    i, e1 = divmod(i, len(SWEEP_EDITS))
    w1 = i % len(SWEEP2_WARM)
    ops = [{"k": "new_node", "route": "plain"},
           {"k": "add", "node": 1, "h": 0, "sym": "foo", "scale": 2.0, "dims": "length", "prefixable": True},
           {"k": "quantity", "node": 1, "h": 0, "v": 2.0, "s": "foo", "route": "ctor", "store": True},
           {"k": "quantity", "node": 1, "h": 0, "v": 9.0, "s": "foo**2", "route": "ctor", "store": True}]
    _sweep_warm(ops, SWEEP2_WARM[w1])
    for e in SWEEP_EDITS[e1]:
        ops.append(dict(e, node=1, h=0))
    _sweep_warm(ops, SWEEP2_WARM[w2])
    for e in SWEEP_EDITS[e2]:
        # the second edit uses other numbers than the first, so that "the first edit's value survived" shows
        e = dict(e, node=1, h=0)
        if "value" in e:
            e["value"] = e["value"] + 8.0
        if "scale" in e:
            e["scale"] = e["scale"] + 8.0
        if "v" in e:
            e["v"] = e["v"] + 8.0
        ops.append(e)
    s_, r_ = SWEEP2_PROBE[pr]
    n0 = sum(1 for o in ops if o.get("store"))
    if r_ == "to":
        ops.append({"k": "to", "x": 0, "s": s_, "how": "to", "store": False})
    elif r_ == "sqrt1":
        ops.append({"k": "unop", "f": "sqrt", "x": 1, "p": 2, "store": False})
    elif r_ == "mul01":
        ops.append({"k": "binop", "f": "mul", "x": 0, "y": 1, "store": False})
    elif r_ == "cancel":
        ops.append({"k": "quantity", "node": 1, "h": 0, "v": 2.0, "s": "kfoo", "route": "ctor", "store": True})
        ops.append({"k": "quantity", "node": 1, "h": 0, "v": 4.0, "s": "m**-1", "route": "ctor", "store": True})
        ops.append({"k": "binop", "f": "mul", "x": n0, "y": n0 + 1, "store": False})
    elif r_ == "eqnew":
        ops.append({"k": "quantity", "node": 1, "h": 0, "v": 2.0, "s": "foo", "route": "ctor", "store": True})
        ops.append({"k": "binop", "f": "eq", "x": 0, "y": n0, "store": False})
    else:
        ops.append({"k": "unit", "node": 1, "h": 0, "s": s_, "store": False})
    cfg = {"profile": "C12", "lru": 128, "syms": ["foo", "kfoo", "Mfoo"], "defsyms": ["m"], "dims": ["length"],
           "routes": ["plain"], "n_steps": len(ops), "p_store": 0.0, "p_custom": 1.0, "max_nodes": 2, "w_namespace": 0,
           "end_probe": True, "sweep": True}
    return ops, cfg


def simulate(chan, spec):
    """Entry point of a run child.  spec: {prop, seed, run, ops?, cfg?, sweep?}"""
    prop = spec["prop"]
    rng = make_rng(spec["seed"], prop, spec["run"])
    if spec.get("sweep") is not None and spec.get("ops") is None:
        ops_s, cfg_s = sweep_case(spec["sweep"]) if spec["sweep"] < SWEEP_TOTAL else sweep2_case(spec["sweep"] - SWEEP_TOTAL)
        spec = dict(spec, ops=ops_s, cfg=cfg_s)
    cfg = spec.get("cfg") or make_config(rng, prop)
    sim = Sim(chan, cfg, prop)
    ops_in = spec.get("ops")
    gen = None if ops_in is not None else Gen(rng, cfg)
    executed = []
    n = len(ops_in) if ops_in is not None else cfg["n_steps"]
    i = 0
    while i < n:
        op = ops_in[i] if ops_in is not None else gen.next(sim.w)
        i += 1
        sim.step(op)
        executed.append(op)
        if any(prop in v["props"] for v in sim.violations) and not spec.get("keep_going"):
            break
    else:
        if cfg.get("end_probe", True) and not spec.get("no_end"):
            sim.end_of_run()
    mine = [v for v in sim.violations if prop in v["props"]]
    other = [v for v in sim.violations if prop not in v["props"]]
    f = sim.flags
    if prop == "C12":
        nontrivial = f["edit_ok"] and f["stale_opportunity"]
    else:
        nontrivial = len(f["nodes_touched"]) >= 2 and f["edit_while_other_warm"] and f["cross_or_restore"]
    sim.stats["faults"] = dict(sorted(sim.stats["faults"].items()))
    return {
        "prop": prop, "seed": spec["seed"], "run": spec["run"], "cfg": cfg, "ops": executed,
        "violations": mine, "other_violations": [{"sig": v["sig"], "props": v["props"]} for v in other],
        "digest": sim.log.hexdigest(), "steps": sim.step_no, "stats": sim.stats, "probes": sim.w.probes,
        "shape": ">".join(sim.shape), "nontrivial": bool(nontrivial), "cold_calls": chan.cold_calls,
        "abstract_state": abstract_state(sim),
        "extra": {"sweep_cases_run": 1} if cfg.get("sweep") else {},
    }


def table_digest(lut):
    """UnitRegistry.unit_system_id as documented: md5 over the sorted table."""
    import hashlib

    data = bytearray()
    for k_, v_ in sorted(lut.items()):
        data.extend(k_.encode("utf8"))
        data.extend(repr(v_).encode("utf8"))
    return hashlib.md5(data).hexdigest()


def si_image(x):
    """(numbers x base_value, str(dimensions)) of a quantity whose unit has no
    offset and is not logarithmic, else None."""
    import numpy as np

    u = getattr(x, "units", None)
    if u is None or not hasattr(x, "d") or hasattr(x, "is_Unit"):
        return None
    try:
        if float(u.base_offset) != 0.0 or "logarithmic" in str(u.dimensions):
            return None
        d = np.asarray(x.d)
        if d.dtype.kind not in "fiu":
            return None
        with np.errstate(all="ignore"):
            return (np.array(d, dtype="float64") * float(u.base_value), str(u.dimensions))
    except Exception:
        return None


def abstract_state(sim):
    """Abstract state for the 'distinct states reached' measure: per node
    (#explicit non-default symbols, #removed defaults, #warm strings>0)."""
    unyt, lt, dims, uo, ur, us = rw._U()
    base = lt.default_unit_symbol_lut
    out = []
    for n in sim.w.nodes:
        extra = sum(1 for k in n.model if k not in base)
        changed = sum(1 for k in n.model if k in base and not rw.entry_eq(n.model[k], base[k]))
        removed = sum(1 for k in base if k not in n.model) if n.model else -1
        warm = sum(1 for (nid, _s) in sim.warm if nid == n.id)
        out.append((n.kind[0], extra, changed, min(removed, 3), min(warm, 3)))
    return str(out)
