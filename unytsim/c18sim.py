"""C18 - non-mutating calls do not mutate; failed calls leave their operands
intact.  Fault enumeration: every (call template, operand role, fault kind)
cell of a grid is visited with seeded operand payloads; programs are short
sequences of such calls on a heap of arrays that are views of shared buffers.

Oracles (DESIGN.md 3.4):
  A  snapshot of every heap object and root buffer before / after each call;
  B  world W' that runs only the calls that succeeded in W ends in the same
     state (failed calls are no-ops) - evaluated in a second pristine child;
  C  a successful in-place call leaves in its target exactly what the
     copying twin returns on pre-call copies of the operands.
"""

import copy
import operator
import warnings

import numpy as np

from .core import EventLog, HarnessError, make_rng, wchoice
from . import regworld as rw

WARN_TEXTS = ("Overflow encountered while converting to units",
              "Setting the dtype on a NumPy array has been deprecated")

# unit palette: (string, dimension class)
UNITS = [
    ("cm", "length"), ("m", "length"), ("km", "length"), ("s", "time"), ("g", "mass"), ("kg", "mass"),
    ("K", "temperature"), ("degC", "temperature"), ("degF", "temperature"), ("delta_degC", "temperature"),
    ("erg", "energy"), ("J", "energy"), ("keV", "energy"), ("dimensionless", "none"), ("rad", "angle"),
    ("degree", "angle"), ("dB", "log"), ("G", "bfield_cgs"), ("T", "bfield_mks"), ("cm/s", "velocity"),
    ("km/hr", "velocity"), ("g/cm**3", "density"), ("Hz", "rate"), ("A*m", "irreducible"), ("Msun", "mass"),
    ("code_length", "length"), ("kcode_length", "length"), ("code_mass", "mass"),
    # unsimplified compound units with cancelling factors (simplify() rewrites the expression of such a unit in
    # place, so any call that simplifies an operand's own unit object shows up in the snapshot), a scaled
    # dimensionless unit, and the second logarithmic unit
    ("m**2/cm", "length"), ("s*km/hr", "length"), ("km/m", "none"), ("g*cm**2/s**2/erg", "none"), ("Np", "log"),
    # compound spellings of one dimension whose symbols do not cancel pairwise (erg / (N*m) is dimensionless
    # with scale 1e-7: its own branch of __array_ufunc__)
    ("percent", "none"), ("N*m", "energy"), ("dyn*cm", "energy"), ("kg*m**2/s**2", "energy"), ("g*cm/s**2", "force"), ("N", "force"),
]
GUARDED = ["degC", "degF", "dB", "Np", "delta_degC", "delta_degF"]
BY_DIM = {}
for _u, _d in UNITS:
    BY_DIM.setdefault(_d, []).append(_u)
CUSTOM_ONLY = {"code_length", "kcode_length", "code_mass"}
EQUIV = [  # (from unit, to unit, equivalence, kwargs)
    ("g", "erg", "mass_energy", {}), ("erg", "g", "mass_energy", {}), ("K", "keV", "thermal", {}),
    ("keV", "K", "thermal", {}), ("cm", "Hz", "spectral", {}), ("Hz", "erg", "spectral", {}),
    ("g", "cm", "schwarzschild", {}), ("K", "km/s", "sound_speed", {"mu": 0.7}), ("cm/s", "K", "sound_speed", {}),
    ("cm/s", "dimensionless", "lorentz", {}), ("g/cm**3", "cm**-3", "number_density", {"mu": 1.2}),
    ("K", "erg/s/cm**2", "effective_temperature", {}),
    # destinations and sources with an offset: the additive part must survive the in-place route too
    ("keV", "degC", "thermal", {}), ("degC", "keV", "thermal", {}), ("cm/s", "degF", "sound_speed", {}),
    ("erg/s/cm**2", "degC", "effective_temperature", {}), ("degF", "km/s", "sound_speed", {"mu": 0.7}),
]
DTYPES = ["float64", "float64", "float64", "float32", "int64", "int32", "int16", "complex128"]
SYSTEMS = ["mks", "cgs", "imperial", "galactic", None]


# calls documented to return a copy: their result is then mutated in place (result_then_inplace)
COPYING_RESULT = {"to", "in_units", "to_value", "to_unitobj", "in_base", "in_cgs", "in_mks", "to_equivalent", "to_with_equiv",
                  "copy", "deepcopy", "pickle"}


def _mods():
    import unyt
    import unyt.array as ua
    import unyt.unit_object as uo
    import unyt.unit_registry as ur

    return unyt, ua, uo, ur


# ----------------------------------------------------------------- views

VIEWS = {
    "all": lambda a: a[:],
    "head": lambda a: a[:2],
    "tail": lambda a: a[1:],
    "step": lambda a: a[::2],
    "rev": lambda a: a[::-1],
    "same": lambda a: a.view(),
    "T": lambda a: a.T,
    "row": lambda a: a[0],
    "col": lambda a: a[:, 0],
    "elem": lambda a: a[1:2].reshape(()),
}


def view_ok(how, shape):
    nd = len(shape)
    if how in ("T", "row", "col"):
        return nd == 2 and all(s > 0 for s in shape)
    if how in ("head", "tail", "step", "rev", "all"):
        return nd >= 1
    if how == "elem":
        return nd == 1 and shape[0] >= 2
    return True


class Entry:
    def __init__(self, obj, root, chain):
        self.obj = obj
        self.root = root  # index into world.roots
        self.chain = chain


class W18:
    def __init__(self, cfg):
        unyt, ua, uo, ur = _mods()
        self.cfg = cfg
        self.roots = []
        self.ents = []
        self.R = ur.UnitRegistry()
        self.R.add("code_length", 3.0, unyt.dimensions.length, prefixable=True)
        self.R.add("code_mass", 5.0, unyt.dimensions.mass)
        self.D = ur.default_unit_registry

    def reg(self, name):
        return self.R if name == "R" else self.D

    def ent(self, i):
        if not self.ents:
            raise rw.Skip
        return self.ents[i % len(self.ents)]

    def mask(self, e):
        root = self.roots[e.root]
        m = np.zeros(root.shape, dtype=bool)
        v = m
        for how in e.chain:
            v = VIEWS[how](v)
        v[...] = True
        return m


# -------------------------------------------------------------- snapshot


def unit_tuple(u):
    return (str(u.expr), float(u.base_value), float(u.base_offset), str(u.dimensions), id(u.registry))


def snap_entry(e):
    o = e.obj
    a = np.asarray(o)
    return {
        "dtype": str(a.dtype), "shape": tuple(a.shape), "strides": tuple(a.strides),
        "bytes": a.tobytes(), "vals": a.ravel().tolist(), "units": unit_tuple(o.units),
        "name": getattr(o, "name", None), "cls": type(o).__name__, "writeable": bool(a.flags.writeable),
    }


def snapshot(w):
    return {"ents": [snap_entry(e) for e in w.ents], "roots": [r.tobytes() for r in w.roots]}


def same_numbers(a, b):
    if len(a) != len(b):
        return False
    for x, y in zip(a, b):
        if x == y:
            continue
        if x != x and y != y:
            continue
        if isinstance(x, complex) or isinstance(y, complex):
            cx, cy = complex(x), complex(y)
            if (cx.real == cy.real or (cx.real != cx.real and cy.real != cy.real)) and \
               (cx.imag == cy.imag or (cx.imag != cx.imag and cy.imag != cy.imag)):
                continue
        return False
    return True


def describe_world(w):
    out = []
    for e in w.ents:
        s = snap_entry(e)
        out.append({"dtype": s["dtype"], "shape": list(s["shape"]), "vals": rw._tolist(np.asarray(e.obj)),
                    "units": list(s["units"][:4]), "reg": "R" if e.obj.units.registry is w.R else
                    ("D" if e.obj.units.registry is w.D else "other"), "name": s["name"], "cls": s["cls"]})
    return out


# ------------------------------------------------------------- templates


class T:
    def __init__(self, fn, roles, target=None, twin=None, cat="", params=()):
        self.fn = fn
        self.roles = roles
        self.target = target
        self.twin = twin
        self.cat = cat
        self.params = params


def build_templates():
    unyt, ua, uo, ur = _mods()
    TT = {}

    def kw(p):
        return dict(p.get("kw") or {})

    # conversions, copying
    TT["to"] = T(lambda A, p: A["x"].to(p["u"]), ("x",), cat="conv", params=("u",))
    TT["in_units"] = T(lambda A, p: A["x"].in_units(p["u"]), ("x",), cat="conv", params=("u",))
    TT["to_value"] = T(lambda A, p: A["x"].to_value(p["u"]), ("x",), cat="conv", params=("u",))
    TT["to_unitobj"] = T(lambda A, p: A["x"].to(A["y"].units), ("x", "y"), cat="conv")
    TT["in_base"] = T(lambda A, p: A["x"].in_base(p["sys"]), ("x",), cat="conv", params=("sys",))
    TT["in_cgs"] = T(lambda A, p: A["x"].in_cgs(), ("x",), cat="conv")
    TT["in_mks"] = T(lambda A, p: A["x"].in_mks(), ("x",), cat="conv")
    TT["to_equivalent"] = T(lambda A, p: A["x"].to_equivalent(p["u"], p["equiv"], **kw(p)), ("x",), cat="equiv",
                            params=("u", "equiv"))
    TT["to_with_equiv"] = T(lambda A, p: A["x"].to(p["u"], equivalence=p["equiv"], **kw(p)), ("x",), cat="equiv",
                            params=("u", "equiv"))
    TT["get_base_equivalent"] = T(lambda A, p: A["x"].units.get_base_equivalent(p["sys"]), ("x",), cat="unit",
                                  params=("sys",))
    TT["as_coeff_unit"] = T(lambda A, p: A["x"].units.as_coeff_unit(), ("x",), cat="unit")
    TT["copy"] = T(lambda A, p: A["x"].copy(), ("x",), cat="copy")

    # an element of a 1-D array: a scalar quantity of its own (NumPy: indexing with an integer returns a scalar, never
    # a view), also when it is reached by iteration; the result is then mutated in place
    def _one_d(x):
        if getattr(x, "ndim", 0) != 1 or x.size < 2:
            raise rw.Skip
        return x

    TT["getitem_int"] = T(lambda A, p: _one_d(A["x"])[0], ("x",), cat="copy")
    TT["getitem_last"] = T(lambda A, p: _one_d(A["x"])[-1], ("x",), cat="copy")
    TT["iter_first"] = T(lambda A, p: next(iter(_one_d(A["x"]))), ("x",), cat="copy")
    TT["deepcopy"] = T(lambda A, p: copy.deepcopy(A["x"]), ("x",), cat="copy")
    TT["value"] = T(lambda A, p: (A["x"].value, A["x"].v, A["x"].to_ndarray()), ("x",), cat="copy")
    # conversions, in place
    TT["convert_to_units"] = T(lambda A, p: A["x"].convert_to_units(p["u"]), ("x",), "x", "to", "iconv", ("u",))
    TT["convert_to_unitobj"] = T(lambda A, p: A["x"].convert_to_units(A["y"].units), ("x", "y"), "x", "to_unitobj", "iconv")
    TT["convert_to_base"] = T(lambda A, p: A["x"].convert_to_base(p["sys"]), ("x",), "x", "in_base", "iconv", ("sys",))
    TT["convert_to_cgs"] = T(lambda A, p: A["x"].convert_to_cgs(), ("x",), "x", "in_cgs", "iconv")
    TT["convert_to_mks"] = T(lambda A, p: A["x"].convert_to_mks(), ("x",), "x", "in_mks", "iconv")
    TT["convert_to_equivalent"] = T(lambda A, p: A["x"].convert_to_equivalent(p["u"], p["equiv"], **kw(p)), ("x",), "x",
                                    "to_equivalent", "iequiv", ("u", "equiv"))
    TT["convert_to_units_equiv"] = T(lambda A, p: A["x"].convert_to_units(p["u"], equivalence=p["equiv"], **kw(p)),
                                     ("x",), "x", "to_with_equiv", "iequiv", ("u", "equiv"))
    # operators
    for name, f, fi in [("add", operator.add, operator.iadd), ("sub", operator.sub, operator.isub),
                        ("mul", operator.mul, operator.imul), ("truediv", operator.truediv, operator.itruediv),
                        ("floordiv", operator.floordiv, operator.ifloordiv), ("mod", operator.mod, operator.imod)]:
        TT["op_" + name] = T((lambda f: lambda A, p: f(A["x"], A["y"]))(f), ("x", "y"), cat="op")
        TT["iop_" + name] = T((lambda f: lambda A, p: f(A["x"], A["y"]))(fi), ("x", "y"), "x", "op_" + name, "iop")
        TT["ops_" + name] = T((lambda f: lambda A, p: f(A["x"], p["c"]))(f), ("x",), cat="op", params=("c",))
        TT["iops_" + name] = T((lambda f: lambda A, p: f(A["x"], p["c"]))(fi), ("x",), "x", "ops_" + name, "iop", ("c",))
        # the same with a plain ndarray (one that owns its memory) as the right operand
        TT["op_" + name + "_ndroot"] = T((lambda f: lambda A, p: f(A["x"], A["y_root"]))(f), ("x", "y"), cat="op")
        TT["rop_" + name + "_ndroot"] = T((lambda f: lambda A, p: f(A["y_root"], A["x"]))(f), ("x", "y"), cat="op")
    for name, f in [("maximum", np.maximum), ("less", np.less), ("equal", np.equal), ("hypot", np.hypot)]:
        TT["uf_" + name + "_ndroot"] = T((lambda f: lambda A, p: f(A["x"], A["y_root"]))(f), ("x", "y"), cat="ufunc")
    TT["op_pow"] = T(lambda A, p: A["x"] ** p["e"], ("x",), cat="op", params=("e",))
    TT["iop_pow"] = T(lambda A, p: operator.ipow(A["x"], p["e"]), ("x",), "x", "op_pow", "iop", ("e",))
    TT["op_pow_q"] = T(lambda A, p: A["x"] ** A["y"], ("x", "y"), cat="op")
    TT["iop_pow_q"] = T(lambda A, p: operator.ipow(A["x"], A["y"]), ("x", "y"), "x", "op_pow_q", "iop")
    for name, f in [("lt", operator.lt), ("le", operator.le), ("eq", operator.eq), ("ne", operator.ne),
                    ("gt", operator.gt), ("ge", operator.ge)]:
        TT["op_" + name] = T((lambda f: lambda A, p: f(A["x"], A["y"]))(f), ("x", "y"), cat="cmp")
    for name, f in [("neg", operator.neg), ("abs", operator.abs), ("pos", operator.pos)]:
        TT["op_" + name] = T((lambda f: lambda A, p: f(A["x"]))(f), ("x",), cat="op")
    # ufuncs, generated from the live table
    for uf in sorted(ua.unyt_array._ufunc_registry, key=lambda u: getattr(u, "__name__", str(u))):
        n = uf.__name__
        if not isinstance(uf, np.ufunc) or n in ("clip", "isnat"):
            continue
        if uf.nin == 1:
            TT["uf:" + n] = T((lambda uf: lambda A, p: uf(A["x"]))(uf), ("x",), cat="ufunc")
            if uf.nout == 1:
                TT["ufo:" + n] = T((lambda uf: lambda A, p: uf(A["x"], out=A["o"]))(uf), ("x", "o"), "o", "uf:" + n, "ufunc_out")
                TT["ufot:" + n] = T((lambda uf: lambda A, p: uf(A["x"], out=(A["o"],)))(uf), ("x", "o"), "o", "uf:" + n, "ufunc_out")
            elif uf.nout == 2:
                # modf / frexp: the first output given, the second left to NumPy
                TT["ufo2:" + n] = T((lambda uf: lambda A, p: uf(A["x"], out=(A["o"], None)))(uf), ("x", "o"), "o", None, "ufunc_out")
                # both outputs given, the second one a plain ndarray (no units to take over)
                TT["ufo2p:" + n] = T((lambda uf: lambda A, p: uf(A["x"], out=(A["o"], _plain_like(A["o"], uf))))(uf), ("x", "o"), "o",
                                     None, "ufunc_out")
        elif uf.nin == 2:
            TT["uf:" + n] = T((lambda uf: lambda A, p: uf(A["x"], A["y"]))(uf), ("x", "y"), cat="ufunc")
            if uf.nout == 1 and uf.signature is None:
                TT["ufo:" + n] = T((lambda uf: lambda A, p: uf(A["x"], A["y"], out=A["o"]))(uf), ("x", "y", "o"), "o",
                                   "uf:" + n, "ufunc_out")
                TT["ufr:" + n] = T((lambda uf: lambda A, p: uf.reduce(A["x"]))(uf), ("x",), cat="ufunc_red")
                TT["ufa:" + n] = T((lambda uf: lambda A, p: uf.accumulate(A["x"]))(uf), ("x",), cat="ufunc_red")
                TT["ufx:" + n] = T((lambda uf: lambda A, p: uf.outer(A["x"], A["y"]))(uf), ("x", "y"), cat="ufunc_red")
                TT["ufro:" + n] = T((lambda uf: lambda A, p: uf.reduce(A["x"], out=A["o"]))(uf), ("x", "o"), "o",
                                    "ufr:" + n, "ufunc_out")
                TT["ufat:" + n] = T((lambda uf: lambda A, p: uf.at(A["x"], p["idx"], A["y"]))(uf), ("x", "y"), "x",
                                    None, "ufunc_at", ("idx",))
                # keyword forms of the same calls: out= as a tuple, dtype=, casting=, reductions with axis / keepdims,
                # accumulate with out=, reduceat
                TT["ufot:" + n] = T((lambda uf: lambda A, p: uf(A["x"], A["y"], out=(A["o"],)))(uf), ("x", "y", "o"), "o",
                                    "uf:" + n, "ufunc_out")
                TT["ufd:" + n] = T((lambda uf: lambda A, p: uf(A["x"], A["y"], dtype="float64", casting="unsafe"))(uf), ("x", "y"),
                                   cat="ufunc")
                TT["ufrk:" + n] = T((lambda uf: lambda A, p: uf.reduce(A["x"], axis=0, keepdims=True))(uf), ("x",), cat="ufunc_red")
                TT["ufao:" + n] = T((lambda uf: lambda A, p: _accumulate_out(uf, A))(uf), ("x", "o"), "o",
                                    "ufa:" + n, "ufunc_out")
                TT["ufra:" + n] = T((lambda uf: lambda A, p: uf.reduceat(A["x"], [0]))(uf), ("x",), cat="ufunc_red")
            elif uf.nout == 2:
                # two outputs (divmod): the first one given, the second left to NumPy
                TT["ufo2:" + n] = T((lambda uf: lambda A, p: uf(A["x"], A["y"], out=(A["o"], None)))(uf), ("x", "y", "o"), "o",
                                    None, "ufunc_out")
                TT["ufo2p:" + n] = T((lambda uf: lambda A, p: uf(A["x"], A["y"], out=(A["o"], _plain_like(A["o"], uf))))(uf),
                                     ("x", "y", "o"), "o", None, "ufunc_out")
    # out= together with where=: the elements the mask does not select keep the numbers they had
    def _mask(o):
        m = np.zeros(np.shape(o), dtype=bool)
        m.flat[::2] = True
        return m

    for uf in (np.add, np.subtract, np.multiply, np.divide, np.maximum):
        n = uf.__name__

        def _exp(A, p, uf=uf):
            res = uf(A["x"], A["y"])
            m = _mask(A["o"])
            keep = np.asarray(A["o"]).astype(np.asarray(res).dtype if np.asarray(res).dtype.kind in "fc" else "float64")
            e = np.where(m, np.asarray(res), keep)
            return unyt.unyt_array(e, res.units) if e.shape != () else unyt.unyt_quantity(e, res.units)

        TT["ufw_expected:" + n] = T(_exp, ("x", "y", "o"), cat="copy")
        TT["ufw:" + n] = T((lambda uf: lambda A, p: uf(A["x"], A["y"], out=A["o"], where=_mask(A["o"])))(uf), ("x", "y", "o"), "o",
                           "ufw_expected:" + n, "ufunc_out")
    # array functions
    TT["np.concatenate"] = T(lambda A, p: np.concatenate([A["x"], A["y"]]), ("x", "y"), cat="func")
    TT["np.concatenate_out"] = T(lambda A, p: np.concatenate([A["x"], A["y"]], out=A["o"]), ("x", "y", "o"), "o",
                                 "np.concatenate", "func_out")
    TT["np.stack"] = T(lambda A, p: np.stack([A["x"], A["y"]]), ("x", "y"), cat="func")
    TT["np.stack_out"] = T(lambda A, p: np.stack([A["x"], A["y"]], out=A["o"]), ("x", "y", "o"), "o", "np.stack", "func_out")
    TT["np.around"] = T(lambda A, p: np.around(A["x"], 1), ("x",), cat="func")
    TT["np.around_out"] = T(lambda A, p: np.around(A["x"], 1, out=A["o"]), ("x", "o"), "o", "np.around", "func_out")
    TT["np.clip"] = T(lambda A, p: np.clip(A["x"], A["y"], A["z"]), ("x", "y", "z"), cat="func")
    TT["np.clip_out"] = T(lambda A, p: np.clip(A["x"], A["y"], A["z"], out=A["o"]), ("x", "y", "z", "o"), "o", "np.clip", "func_out")
    TT["np.take"] = T(lambda A, p: np.take(A["x"], p["idx"]), ("x",), cat="func", params=("idx",))
    TT["np.take_out"] = T(lambda A, p: np.take(A["x"], p["idx"], out=A["o"]), ("x", "o"), "o", "np.take", "func_out", ("idx",))
    TT["np.dot"] = T(lambda A, p: np.dot(A["x"], A["y"]), ("x", "y"), cat="func")
    TT["np.dot_out"] = T(lambda A, p: np.dot(A["x"], A["y"], out=A["o"]), ("x", "y", "o"), "o", "np.dot", "func_out")
    TT["np.outer"] = T(lambda A, p: np.outer(A["x"], A["y"]), ("x", "y"), cat="func")
    TT["np.einsum"] = T(lambda A, p: np.einsum("i,i->i", A["x"], A["y"]), ("x", "y"), cat="func")
    TT["np.einsum_out"] = T(lambda A, p: np.einsum("i,i->i", A["x"], A["y"], out=A["o"]), ("x", "y", "o"), "o", "np.einsum", "func_out")
    for n in ["sum", "mean", "std", "var", "ptp", "diff", "cumsum", "sort", "median", "prod", "cumprod", "max", "min",
              "argsort", "nansum", "average", "flip", "ravel", "squeeze", "copy", "linalg.norm", "trace", "ediff1d",
              "unique", "fabs", "real", "imag", "round", "nan_to_num", "gradient"]:
        f = np
        for part in n.split("."):
            f = getattr(f, part)
        TT["np." + n] = T((lambda f: lambda A, p: f(A["x"]))(f), ("x",), cat="func")
    for n in ["where_", "allclose", "isclose", "array_equal", "cross_", "intersect1d", "union1d", "vstack", "hstack",
              "searchsorted", "isin", "inner", "vdot", "kron", "append", "interp_"]:
        pass
    TT["np.vstack"] = T(lambda A, p: np.vstack([A["x"], A["y"]]), ("x", "y"), cat="func")
    TT["np.hstack"] = T(lambda A, p: np.hstack([A["x"], A["y"]]), ("x", "y"), cat="func")
    TT["np.allclose"] = T(lambda A, p: np.allclose(A["x"], A["y"]), ("x", "y"), cat="func")
    TT["np.isclose"] = T(lambda A, p: np.isclose(A["x"], A["y"]), ("x", "y"), cat="func")
    TT["np.array_equal"] = T(lambda A, p: np.array_equal(A["x"], A["y"]), ("x", "y"), cat="func")
    TT["np.where"] = T(lambda A, p: np.where(np.asarray(A["x"]) > 0, A["x"], A["y"]), ("x", "y"), cat="func")
    TT["np.intersect1d"] = T(lambda A, p: np.intersect1d(A["x"], A["y"]), ("x", "y"), cat="func")
    TT["np.union1d"] = T(lambda A, p: np.union1d(A["x"], A["y"]), ("x", "y"), cat="func")
    TT["np.isin"] = T(lambda A, p: np.isin(A["x"], A["y"]), ("x", "y"), cat="func")
    TT["np.inner"] = T(lambda A, p: np.inner(A["x"], A["y"]), ("x", "y"), cat="func")
    TT["np.vdot"] = T(lambda A, p: np.vdot(A["x"], A["y"]), ("x", "y"), cat="func")
    TT["np.append"] = T(lambda A, p: np.append(A["x"], A["y"]), ("x", "y"), cat="func")
    TT["np.searchsorted"] = T(lambda A, p: np.searchsorted(A["x"], A["y"]), ("x", "y"), cat="func")
    TT["np.insert"] = T(lambda A, p: np.insert(A["x"], 1, A["y"]), ("x", "y"), cat="func")
    TT["np.linspace"] = T(lambda A, p: np.linspace(A["x"], A["y"], 3), ("x", "y"), cat="func")
    TT["np.histogram"] = T(lambda A, p: np.histogram(A["x"], bins=2), ("x",), cat="func")
    TT["np.percentile"] = T(lambda A, p: np.percentile(A["x"], 50), ("x",), cat="func")
    # range= limits: one a quantity, the other a bare number (the handler lets bare numbers through for
    # backward compatibility), and both quantities
    TT["np.histogram_range_qn"] = T(lambda A, p: np.histogram(A["x"], bins=2, range=(A["y"], 50.0)), ("x", "y"), cat="func")
    TT["np.histogram_range_nq"] = T(lambda A, p: np.histogram(A["x"], bins=2, range=(-50.0, A["y"])), ("x", "y"), cat="func")
    TT["np.histogram_range_qq"] = T(lambda A, p: np.histogram(A["x"], bins=2, range=(A["y"], A["y"] + A["y"])), ("x", "y"), cat="func")
    TT["np.histogram_bins_arr"] = T(lambda A, p: np.histogram(A["x"], bins=A["y"]), ("x", "y"), cat="func")
    TT["np.histogram_bin_edges_range"] = T(lambda A, p: np.histogram_bin_edges(A["x"], bins=2, range=(A["y"], 50.0)), ("x", "y"), cat="func")
    # degenerate parameters: NumPy still returns a NEW array for each of these (np.diff(n=0), which NumPy documents to
    # return its input as-is, and the view-returning functions are deliberately not here); a handler with a fast path
    # for "nothing to do" must not hand back the caller's buffer
    TT["np.concatenate_single"] = T(lambda A, p: np.concatenate([A["x"]]), ("x",), cat="func")
    TT["np.stack_single"] = T(lambda A, p: np.stack([A["x"]]), ("x",), cat="func")
    TT["np.tile_1"] = T(lambda A, p: np.tile(A["x"], 1), ("x",), cat="func")
    TT["np.pad_0"] = T(lambda A, p: np.pad(A["x"], 0), ("x",), cat="func")
    TT["np.around_0"] = T(lambda A, p: np.around(A["x"], 0), ("x",), cat="func")
    TT["np.diff_n2"] = T(lambda A, p: np.diff(A["x"], n=2), ("x",), cat="func")
    TT["np.append_empty"] = T(lambda A, p: np.append(A["x"], A["x"][:0]) if A["x"].ndim else np.append(A["x"], A["x"]), ("x",), cat="func")
    TT["np.where_true"] = T(lambda A, p: np.where(True, A["x"], A["y"]), ("x", "y"), cat="func")
    TT["np.clip_wide"] = T(lambda A, p: np.clip(A["x"], A["x"].min(), A["x"].max()), ("x",), cat="func")
    TT["np.take_all"] = T(lambda A, p: np.take(A["x"], np.arange(A["x"].size)), ("x",), cat="func")
    TT["np.cumsum_axis0"] = T(lambda A, p: np.cumsum(A["x"], axis=0), ("x",), cat="func")
    TT["np.sort_axis0"] = T(lambda A, p: np.sort(A["x"], axis=0), ("x",), cat="func")
    TT["np.pad"] = T(lambda A, p: np.pad(A["x"], 1), ("x",), cat="func")
    TT["np.tile"] = T(lambda A, p: np.tile(A["x"], 2), ("x",), cat="func")
    TT["ustack"] = T(lambda A, p: unyt.ustack([A["x"], A["y"]]), ("x", "y"), cat="func")
    TT["uconcatenate"] = T(lambda A, p: unyt.uconcatenate([A["x"], A["y"]]), ("x", "y"), cat="func")
    TT["unorm"] = T(lambda A, p: unyt.unorm(A["x"]), ("x",), cat="func")
    TT["udot"] = T(lambda A, p: unyt.udot(A["x"], A["y"]), ("x", "y"), cat="func")
    for hn in ("ucross", "uintersect1d", "uunion1d", "uvstack", "uhstack"):
        hf = getattr(unyt, hn, None) or getattr(ua, hn)
        if hn in ("uvstack", "uhstack"):
            TT[hn] = T((lambda hf: lambda A, p: hf([A["x"], A["y"]]))(hf), ("x", "y"), cat="func")
        else:
            TT[hn] = T((lambda hf: lambda A, p: hf(A["x"], A["y"]))(hf), ("x", "y"), cat="func")
    TT["assert_allclose_units"] = T(lambda A, p: __import__("unyt.testing").testing.assert_allclose_units(A["x"], A["y"]),
                                    ("x", "y"), cat="func")
    for mn in ("prod", "min", "max", "cumsum", "cumprod", "ptp", "round", "var", "argmax", "nonzero", "ravel", "flatten",
               "tolist", "squeeze", "conj", "all", "any", "trace"):
        if hasattr(ua.unyt_array, mn):
            TT["m." + mn] = T((lambda mn: lambda A, p: getattr(A["x"], mn)())(mn), ("x",), cat="func")
    TT["m.take"] = T(lambda A, p: A["x"].take(p["idx"]), ("x",), cat="func", params=("idx",))
    TT["m.take_out"] = T(lambda A, p: A["x"].take(p["idx"], out=A["o"]), ("x", "o"), "o", "m.take", "func_out", ("idx",))
    TT["m.clip"] = T(lambda A, p: A["x"].clip(A["y"], A["z"]), ("x", "y", "z"), cat="func")
    TT["m.dot"] = T(lambda A, p: A["x"].dot(A["y"]), ("x", "y"), cat="func")
    TT["m.dot_out"] = T(lambda A, p: A["x"].dot(A["y"], out=A["o"]), ("x", "y", "o"), "o", "m.dot", "func_out")
    TT["m.sum"] = T(lambda A, p: A["x"].sum(), ("x",), cat="func")
    TT["m.mean"] = T(lambda A, p: A["x"].mean(), ("x",), cat="func")
    TT["m.std"] = T(lambda A, p: A["x"].std(), ("x",), cat="func")
    TT["m.argsort"] = T(lambda A, p: A["x"].argsort(), ("x",), cat="func")
    TT["m.getitem"] = T(lambda A, p: A["x"][p["idx"]], ("x",), cat="func", params=("idx",))
    TT["m.str"] = T(lambda A, p: (str(A["x"]), repr(A["x"]), format(A["x"][()] if A["x"].shape == () else A["x"].sum(), ".3g")),
                    ("x",), cat="func")
    TT["m.reshape"] = T(lambda A, p: A["x"].reshape(-1), ("x",), cat="func")
    TT["m.unit_quantity"] = T(lambda A, p: (A["x"].unit_quantity, A["x"].unit_array), ("x",), cat="func")
    TT["m.list_equiv"] = T(lambda A, p: A["x"].has_equivalent("thermal"), ("x",), cat="func")
    TT["pickle"] = T(lambda A, p: __import__("pickle").loads(__import__("pickle").dumps(A["x"])), ("x",), cat="copy")
    TT["unyt_array(x)"] = T(lambda A, p: unyt.unyt_array(A["x"]), ("x",), cat="copy")
    TT["unyt_array(x,u)"] = T(lambda A, p: unyt.unyt_array(A["x"], p["u"]), ("x",), cat="copy", params=("u",))
    TT["unyt_array([x,y])"] = T(lambda A, p: unyt.unyt_array([A["x"], A["y"]]), ("x", "y"), cat="copy")
    TT["unyt_array(x,u,bypass)"] = T(lambda A, p: unyt.unyt_array(A["x"], uo.Unit(p["u"], registry=A["x"].units.registry),
                                                                  bypass_validation=True), ("x",), cat="copy", params=("u",))
    TT["unyt_array(x,yu,bypass)"] = T(lambda A, p: type(A["x"])(A["x"], A["y"].units, bypass_validation=True), ("x", "y"), cat="copy")
    TT["unyt_quantity(x)"] = T(lambda A, p: unyt.unyt_quantity(A["x"], p["u"]), ("x",), cat="copy", params=("u",))
    # every handler in the live table, called as f(x) and f(x, y): most signatures accept that, the rest raise
    # TypeError before doing anything - either way the operands must come out untouched.  (Handlers that are
    # in place by contract have their own templates below; savetxt writes a file.)
    from unyt._array_functions import _HANDLED_FUNCTIONS

    inplace_by_contract = {"copyto", "fill_diagonal", "place", "put", "put_along_axis", "putmask", "savetxt"}
    for f in sorted(_HANDLED_FUNCTIONS, key=lambda f: (f.__module__ or "", f.__name__)):
        if f.__name__ in inplace_by_contract:
            continue
        qn = (f.__module__ or "numpy").replace("numpy", "np") + "." + f.__name__
        try:
            names = [q.name for q in __import__("inspect").signature(f).parameters.values()]
        except (TypeError, ValueError):
            continue
        first = names[0] if names else ""
        second = names[1] if len(names) > 1 else ""
        if first in ("arrays", "tup", "operands"):
            TT["afseq:" + qn] = T((lambda f: lambda A, p: f([A["x"], A["y"]]))(f), ("x", "y"), cat="func")
            continue
        if first in ("a", "a1", "arr", "ary", "x", "m", "p", "y", "array", "element", "ar1", "x1", "start", "sample"):
            TT["af1:" + qn] = T((lambda f: lambda A, p: f(A["x"]))(f), ("x",), cat="func")
            # a second positional argument only where it is data (an array given as max_line_width, axis, n,
            # bins ... is not a call anybody makes, and NumPy's own code may then work on it in place)
            if second in ("b", "a2", "v", "xp", "ar2", "test_elements", "x2", "stop", "x", "y", "to_end", "a_min"):
                TT["af2:" + qn] = T((lambda f: lambda A, p: f(A["x"], A["y"]))(f), ("x", "y"), cat="func")
    TT["np.put_along_axis"] = T(lambda A, p: np.put_along_axis(A["x"], np.array([0]), A["y"], 0), ("x", "y"), "x", None, "ifunc")
    TT["np.select"] = T(lambda A, p: np.select([np.asarray(A["x"]) > 0], [A["x"]], A["y"]), ("x", "y"), cat="func")
    TT["np.choose_out"] = T(lambda A, p: np.choose([0, 1, 0][: A["x"].size] if A["x"].ndim else 0, [A["x"], A["y"]], out=A["o"]),
                            ("x", "y", "o"), "o", None, "func_out")
    TT["np.interp"] = T(lambda A, p: np.interp(A["x"], A["y"], A["y"]), ("x", "y"), cat="func")
    # in-place array functions / item assignment
    def _like(x, arr, units):
        return unyt.unyt_quantity(arr, units) if np.ndim(arr) == 0 else unyt.unyt_array(arr, units)

    def _val(x, y):
        # the value argument as the target must receive it: converted with the COPYING api, never in place
        if hasattr(y, "units") and y.units != x.units and not (y.units.is_dimensionless and float(y.units.base_value) == 1.0):
            y = y.to(x.units)
        return np.asarray(y)

    def _exp_put(A, p):
        e = np.array(np.asarray(A["x"]), copy=True)
        np.put(e, [0], _val(A["x"], A["y"]))
        return _like(A["x"], e, A["x"].units)

    def _exp_putmask(A, p):
        e = np.array(np.asarray(A["x"]), copy=True)
        np.putmask(e, np.asarray(A["x"]) > 0, _val(A["x"], A["y"]))
        return _like(A["x"], e, A["x"].units)

    def _exp_place(A, p):
        e = np.array(np.asarray(A["x"]), copy=True)
        np.place(e, np.asarray(A["x"]) > 0, _val(A["x"], A["y"]))
        return _like(A["x"], e, A["x"].units)

    def _exp_filldiag(A, p):
        e = np.array(np.asarray(A["x"]), copy=True)
        np.fill_diagonal(e, _val(A["x"], A["y"]))
        return _like(A["x"], e, A["x"].units)

    def _exp_copyto(A, p):
        # np.copyto(dst, src) makes dst BE src: its numbers and its units
        e = np.array(np.asarray(A["x"]), copy=True)
        np.copyto(e, np.asarray(A["y"]))
        return _like(A["x"], e, A["y"].units)

    def _exp_mask(A, p):
        e = np.array(np.asarray(A["x"]), copy=True)
        e[np.asarray(A["x"]) > 0] = _val(A["x"], A["y"])
        return _like(A["x"], e, A["x"].units)

    TT["np.put_expected"] = T(_exp_put, ("x", "y"), cat="copy")
    TT["np.putmask_expected"] = T(_exp_putmask, ("x", "y"), cat="copy")
    TT["np.place_expected"] = T(_exp_place, ("x", "y"), cat="copy")
    TT["np.fill_diagonal_expected"] = T(_exp_filldiag, ("x", "y"), cat="copy")
    TT["np.copyto_expected"] = T(_exp_copyto, ("x", "y"), cat="copy")
    TT["setitem_mask_expected"] = T(_exp_mask, ("x", "y"), cat="copy")
    TT["setitem_mask"] = T(lambda A, p: operator.setitem(A["x"], np.asarray(A["x"]) > 0, A["y"]), ("x", "y"), "x",
                           "setitem_mask_expected", "ifunc")
    TT["np.copyto"] = T(lambda A, p: np.copyto(A["x"], A["y"]), ("x", "y"), "x", "np.copyto_expected", "ifunc")
    TT["np.fill_diagonal"] = T(lambda A, p: np.fill_diagonal(A["x"], A["y"]), ("x", "y"), "x", "np.fill_diagonal_expected", "ifunc")
    TT["np.place"] = T(lambda A, p: np.place(A["x"], np.asarray(A["x"]) > 0, A["y"]), ("x", "y"), "x", "np.place_expected", "ifunc")
    TT["np.put"] = T(lambda A, p: np.put(A["x"], [0], A["y"]), ("x", "y"), "x", "np.put_expected", "ifunc")
    TT["np.putmask"] = T(lambda A, p: np.putmask(A["x"], np.asarray(A["x"]) > 0, A["y"]), ("x", "y"), "x", "np.putmask_expected", "ifunc")
    def _assigned(A, p):
        # what x[idx] = y must leave in x, computed with the copying API only: y.to(x.units) on a copy
        x, y = A["x"], A["y"]
        exp = np.array(np.asarray(x), copy=True)
        if y.units != x.units and not (y.units.is_dimensionless and float(y.units.base_value) == 1.0):
            # a bare number (unit 1) is stored as it is; anything else, percent included, is converted
            y = y.to(x.units)
        exp[p["idx"]] = np.asarray(y)
        return type(x)(exp, x.units) if exp.shape != () else unyt.unyt_quantity(exp, x.units)

    TT["setitem_expected"] = T(_assigned, ("x", "y"), cat="copy", params=("idx",))
    TT["setitem"] = T(lambda A, p: operator.setitem(A["x"], p["idx"], A["y"]), ("x", "y"), "x", "setitem_expected", "ifunc", ("idx",))
    TT["setitem_scalar"] = T(lambda A, p: operator.setitem(A["x"], p["idx"], p["c"]), ("x",), "x", None, "ifunc", ("idx", "c"))
    TT["m.fill"] = T(lambda A, p: A["x"].fill(p["c"]), ("x",), "x", None, "ifunc", ("c",))
    TT["m.sort"] = T(lambda A, p: A["x"].sort(), ("x",), "x", None, "ifunc")
    # Unit arithmetic on the operands' units
    TT["u_mul"] = T(lambda A, p: A["x"].units * A["y"].units, ("x", "y"), cat="unit")
    TT["u_div"] = T(lambda A, p: A["x"].units / A["y"].units, ("x", "y"), cat="unit")
    TT["u_pow"] = T(lambda A, p: A["x"].units ** p["e"], ("x",), cat="unit", params=("e",))
    TT["u_eq"] = T(lambda A, p: A["x"].units == A["y"].units, ("x", "y"), cat="unit")
    TT["u_mul_arr"] = T(lambda A, p: A["x"].units * A["y"], ("x", "y"), cat="unit")
    TT["op_mul_unit"] = T(lambda A, p: A["x"] * A["y"].units, ("x", "y"), cat="op")
    TT["op_div_unit"] = T(lambda A, p: A["x"] / A["y"].units, ("x", "y"), cat="op")
    TT["u_rmul_scalar"] = T(lambda A, p: p["c"] * A["x"].units, ("x",), cat="unit", params=("c",))
    TT["u_conv"] = T(lambda A, p: A["x"].units.get_conversion_factor(A["y"].units), ("x", "y"), cat="unit")
    TT["u_simplify"] = T(lambda A, p: A["x"].units.simplify(), ("x",), cat="unit")
    TT["u_latex"] = T(lambda A, p: (A["x"].units.latex_repr, str(A["x"].units), repr(A["x"].units)), ("x",), cat="unit")
    TT["u_copy"] = T(lambda A, p: (A["x"].units.copy(), copy.deepcopy(A["x"].units)), ("x",), cat="unit")
    TT["u_same_dims"] = T(lambda A, p: A["x"].units.same_dimensions_as(A["y"].units), ("x", "y"), cat="unit")
    # Unit arithmetic that is always refused, and constructors given their operands' data
    TT["u_add"] = T(lambda A, p: A["x"].units + A["y"].units, ("x", "y"), cat="unit")
    TT["u_sub"] = T(lambda A, p: A["x"].units - A["y"].units, ("x", "y"), cat="unit")
    TT["u_div_obj"] = T(lambda A, p: A["x"].units / "cm", ("x",), cat="unit")
    TT["u_rdiv_scalar"] = T(lambda A, p: p["c"] / A["x"].units, ("x",), cat="unit", params=("c",))
    TT["u_pow_u"] = T(lambda A, p: A["x"].units ** A["y"].units, ("x", "y"), cat="unit")
    TT["u_has_equiv"] = T(lambda A, p: A["x"].units.has_equivalent(p["equiv"]), ("x",), cat="unit", params=("equiv",))
    def _quiet(f):
        import contextlib
        import io

        with contextlib.redirect_stdout(io.StringIO()):
            return f()

    TT["u_list_equiv"] = T(lambda A, p: _quiet(A["x"].units.list_equivalencies), ("x",), cat="unit")
    TT["uq_from_x"] = T(lambda A, p: unyt.unyt_quantity(A["x"], A["x"].units), ("x",), cat="copy")
    TT["uq_from_str"] = T(lambda A, p: unyt.unyt_quantity.from_string(str(A["x"].sum())), ("x",), cat="copy")
    TT["uconcatenate_mixed"] = T(lambda A, p: unyt.uconcatenate([A["x"], np.asarray(A["y"])]), ("x", "y"), cat="func")
    TT["np.where1"] = T(lambda A, p: np.where(np.asarray(A["x"]) > 0, A["x"]), ("x",), cat="func")
    TT["allclose_units"] = T(lambda A, p: unyt.allclose_units(A["x"], A["y"], rtol=A["y"]), ("x", "y"), cat="func")
    TT["allclose_units_atol"] = T(lambda A, p: unyt.allclose_units(A["x"], A["x"], atol=A["y"]), ("x", "y"), cat="func")
    TT["assert_allclose_units_atol"] = T(lambda A, p: __import__("unyt.testing").testing.assert_allclose_units(
        A["x"], A["x"], atol=A["y"]), ("x", "y"), cat="func")
    TT["np.allclose_atol"] = T(lambda A, p: np.allclose(A["x"], A["x"], atol=A["y"]), ("x", "y"), cat="func")
    TT["np.isclose_atol"] = T(lambda A, p: np.isclose(A["x"], A["x"], atol=A["y"]), ("x", "y"), cat="func")
    return TT


def family(name):
    """A template, its copying twin and the templates whose twin it is."""
    T = templates()
    fam = {name}
    if T[name].twin:
        fam.add(T[name].twin)
    for n, t in T.items():
        if t.twin in fam:
            fam.add(n)
    return sorted(fam)


_TT = None


def templates():
    global _TT
    if _TT is None:
        _TT = build_templates()
    return _TT


# fault kinds ------------------------------------------------------------

ROLE_FAULTS = ["readonly", "int8", "uint8", "bool", "bigint", "overlap", "noncontig", "zerod", "size1", "empty",
               "dim_mismatch", "other_registry", "intdtype", "view", "guarded_unit", "sibling_subclass"]
PARAM_FAULTS = {"u": ["unknown_unit", "absent_symbol", "dim_mismatch_u", "garbage_u"],
                "sys": ["irreducible", "unknown_sys"],
                "equiv": ["bad_equiv_name", "equiv_not_covering", "surplus_kw", "bad_kw_value"],
                "e": ["fractional_exp", "zero_exp", "str_exp"],
                "c": [], "idx": ["idx_out_of_range"]}
ENV_FAULTS = ["warn_error"]


def _accumulate_out(uf, A):
    # NumPy 2.5 does not validate the shape of out= in ufunc.accumulate: a mis-shaped out is written out of bounds
    # (bare `np.add.accumulate(np.arange(3.), out=np.zeros(1))` kills the interpreter), so only a well-shaped out
    # is ever passed
    if np.shape(A["o"]) != np.shape(A["x"]) or np.ndim(A["x"]) == 0:
        raise rw.Skip
    return uf.accumulate(A["x"], out=A["o"])


def grid():
    """The (template, site, fault kind) cells; site is a role or a parameter."""
    cells = []
    for name, t in sorted(templates().items()):
        cells.append((name, "-", "none"))
        for r in t.roles:
            for k in ROLE_FAULTS:
                if k == "dim_mismatch" and r == "x" and len(t.roles) == 1:
                    continue
                if k in ("overlap", "sibling_subclass") and len(t.roles) < 2:
                    continue
                cells.append((name, r, k))
        for prm in t.params:
            for k in PARAM_FAULTS.get(prm, []):
                cells.append((name, prm, k))
        if t.target or t.cat in ("conv", "iconv"):
            cells.append((name, "env", "warn_error"))
        if "y" in t.roles and name.startswith(("op_pow_q", "iop_pow_q", "uf:power", "ufo:power")):
            cells.append((name, "y", "nondimless_exp"))
            cells.append((name, "y", "nonuniform_exp"))
    return cells


# -------------------------------------------------------------- generator


def _plain_like(o, uf):
    """A fresh plain ndarray of o's shape as the second output of a two-output ufunc."""
    return np.empty(np.shape(o), dtype="int32" if uf.__name__ == "frexp" else "float64")


def gen_vals(r, dtype, n, positive=False, big=False):
    if dtype == "bool":
        return [bool(r.randrange(2)) for _ in range(n)]
    if dtype.startswith(("int", "uint")):
        if big:
            return [2**53 + 1 + 2 * r.randrange(100) for _ in range(n)]
        lo = 1 if positive or dtype.startswith("uint") else -5
        vals = [r.randrange(lo, 9) for _ in range(n)]
        if not dtype.endswith("8") and r.random() < 0.35:
            # values whose image under an inexact factor depends on HOW it is computed (35 * 0.01 != 35 / 100):
            # tiny integers convert exactly by every route, which hides route-dependent rounding
            vals = [r.choice([35, 57, 113, 29, 1001, 7, 11]) for _ in range(n)]
        return [v if v != 0 else 1 for v in vals]
    pool = [0.5, 1.0, 1.5, 2.0, 2.5, 3.0, 4.0, 0.25, 7.0]
    vals = [r.choice(pool) * (1 if positive or r.random() < 0.7 else -1) for _ in range(n)]
    if dtype.startswith("complex"):
        return [[v, r.choice(pool)] for v in vals]
    return vals


class Gen18:
    def __init__(self, rng, cfg):
        self.r = rng
        self.cfg = cfg
        self.cells = grid()
        self.ncalls = 0

    def cells_by_cat(self):
        if not hasattr(self, "_by_cat"):
            self._by_cat = {}
            T = templates()
            for c in self.cells:
                self._by_cat.setdefault(T[c[0]].cat, []).append(c)
        return self._by_cat

    def mk(self, unit, dtype="float64", shape=(3,), reg="D", ro=False, q=False, positive=False, big=False, vals=None):
        n = 1
        for s in shape:
            n *= s
        if unit in CUSTOM_ONLY:
            reg = "R"
        if vals is not None:
            vals = (list(vals) * (n + 1))[:n]
            if dtype.startswith(("int", "uint")):
                vals = [int(v) for v in vals]
            elif dtype == "bool":
                vals = [bool(v) for v in vals]
            elif dtype.startswith("complex"):
                vals = [[float(v), 0.0] for v in vals]
        return {"k": "mk", "dt": dtype, "shape": list(shape), "vals": vals if vals is not None else gen_vals(self.r, dtype, n, positive, big),
                "unit": unit, "reg": reg, "ro": ro, "q": q}

    def pick_unit(self, dim=None, avoid_dim=None):
        r = self.r
        if dim is not None and dim in BY_DIM:
            return r.choice(BY_DIM[dim])
        pool = [u for u, d in UNITS if d != avoid_dim and d != "irreducible"] if avoid_dim else [u for u, d in UNITS if d != "irreducible"]
        return r.choice(pool)

    def dim_of(self, unit):
        for u, d in UNITS:
            if u == unit:
                return d
        return None

    def group(self, w, cell):
        """Ops realising one grid cell: zero or more mk/view ops then a call."""
        r = self.r
        name, site, kind = cell
        t = templates()[name]
        ops = []
        p = {}
        base_n = len(w.ents)
        shape = (3,)
        if name in ("np.fill_diagonal",) or (name.startswith(("af1:", "af2:")) and (
                ".linalg." in name or name.endswith((".tril", ".triu", ".fft2", ".ifft2", ".rfft2", ".irfft2", ".histogram2d")))):
            shape = (2, 2)
        dtype = r.choice(self.cfg["dtypes"])
        if t.twin and t.cat in ("iconv", "iequiv") and r.random() < 0.3:
            dtype = "float32"  # in place vs copy must agree to the bit also in the narrow float type
        # unit of the primary operand
        xunit = self.pick_unit()
        to_unit = None
        if t.cat in ("equiv", "iequiv"):
            eq = r.choice(EQUIV)
            xunit, to_unit, p["equiv"], p["kw"] = eq[0], eq[1], eq[2], dict(eq[3])
        if name.endswith("_ndroot") and r.random() < 0.6:
            xunit = r.choice(["percent", "km/m", "dimensionless", "g*cm**2/s**2/erg"])
        positive = name.split(":")[-1] in ("sqrt", "log", "log2", "log10", "log1p", "arccosh", "power", "reciprocal") or "pow" in name \
            or t.cat in ("equiv", "iequiv")
        # parameters
        xdim = self.dim_of(xunit)
        if "u" in t.params:
            p["u"] = to_unit or self.pick_unit(dim=xdim)
        if "sys" in t.params:
            p["sys"] = r.choice(SYSTEMS)
        if "e" in t.params:
            p["e"] = r.choice([2, 3, -1, 0.5, 2.0])
        if "c" in t.params:
            p["c"] = r.choice([2.0, 3, 0.5, 0, 1])
        if "idx" in t.params:
            p["idx"] = r.choice([0, 1, [0, 2], 2])
        sticky = getattr(self, "sticky", None)
        if sticky and kind == "none":
            for key in ("equiv", "kw", "sys"):
                if key in sticky and key in p:
                    p[key] = sticky[key]
            if "equiv" in p:
                for eq in EQUIV:
                    if eq[2] == p["equiv"]:
                        xunit, to_unit, p["kw"] = eq[0], eq[1], dict(eq[3])
                        xdim = self.dim_of(xunit)
                        if "u" in p:
                            p["u"] = to_unit
                        break
        # role -> spec
        spec = {}
        for role in t.roles:
            s = {"unit": xunit, "dtype": dtype, "shape": shape, "ro": False, "q": False, "reg": "D", "positive": positive,
                 "big": False, "view": None, "reuse": None}
            if role in ("y", "z"):
                # commensurable by default, other spelling half of the time
                s["unit"] = self.pick_unit(dim=xdim) if r.random() < 0.5 else xunit
                if name.startswith(("op_mul", "op_truediv", "iop_mul", "iop_truediv", "uf:multiply", "uf:divide", "ufo:multiply",
                                    "ufo:divide", "u_mul", "u_div", "np.dot", "np.outer", "m.dot", "udot")) and r.random() < 0.6:
                    s["unit"] = self.pick_unit()
                if "pow_q" in name or name.endswith(":power"):
                    s["unit"] = "dimensionless"
                    s["vals"] = [2.0, 2.0, 2.0]
                if r.random() < 0.3:
                    s["dtype"] = r.choice(self.cfg["dtypes"])
            if role == "o":
                s["unit"] = r.choice([xunit, "dimensionless", self.pick_unit()])
                s["positive"] = False
                if name.startswith(("ufro:",)) :
                    s["shape"] = ()
                if name in ("np.concatenate_out",):
                    s["shape"] = (6,)
                if name in ("np.stack_out",):
                    s["shape"] = (2, 3)
                if name in ("np.dot_out", "m.dot_out"):
                    s["shape"] = ()
                if name == "np.take_out":
                    s["shape"] = () if not isinstance(p.get("idx"), list) else (len(p["idx"]),)
                if r.random() < 0.25:
                    s["dtype"] = r.choice(self.cfg["dtypes"])
            spec[role] = s
        if name == "np.fill_diagonal" or name.startswith("np.histogram_range") or name == "np.histogram_bin_edges_range" \
                or name.endswith("_atol"):
            spec["y"]["shape"] = ()
            spec["y"]["q"] = True
        # --- apply the fault
        label = f"{kind}@{site}" if kind != "none" else "none"
        warn = False
        if site in spec:
            s = spec[site]
            other = [ro for ro in t.roles if ro != site]
            if kind == "readonly":
                s["ro"] = True
            elif kind in ("int8", "uint8", "bool"):
                s["dtype"] = kind
            elif kind == "intdtype":
                s["dtype"] = r.choice(["int64", "int32", "int16"])
            elif kind == "bigint":
                s["dtype"] = "int64"
                s["big"] = True
            elif kind == "zerod":
                s["shape"] = ()
                s["q"] = r.random() < 0.7
            elif kind == "size1":
                s["shape"] = (1,)
            elif kind == "empty":
                s["shape"] = (0,)
            elif kind == "noncontig":
                s["view"] = r.choice(["step", "rev"])
                s["shape"] = (2 * s["shape"][0] - 1,) if s["view"] == "step" and len(s["shape"]) == 1 and s["shape"][0] else s["shape"]
            elif kind == "view":
                s["view"] = r.choice(["all", "same", "tail", "head", "elem"])
                if s["view"] in ("tail", "head") and len(s["shape"]) == 1:
                    s["shape"] = (s["shape"][0] + 1,) if s["view"] == "tail" else s["shape"]
            elif kind == "overlap" and other:
                s["reuse"] = (r.choice(other), r.choice(["all", "same", "rev", "self"]))
            elif kind == "sibling_subclass":
                # this operand is an instance of one user subclass of unyt_array, the others of a SIBLING subclass
                # (neither derived from the other): unyt refuses to choose a result class for such a pair
                s["cls"] = "A"
                for ro in other:
                    spec[ro]["cls"] = "B"
            elif kind == "dim_mismatch":
                s["unit"] = self.pick_unit(avoid_dim=self.dim_of(spec[other[0]]["unit"]) if other else xdim)
            elif kind == "guarded_unit":
                # the operand carries a unit that unyt guards (offset temperature, logarithmic): as an input the
                # call is mostly refused; as an out= target the unit it carried BEFORE the call must not matter
                s["unit"] = r.choice(GUARDED)
                if site != "o":
                    gd = self.dim_of(s["unit"]) or "temperature"
                    for ro in other:
                        if ro != "o" and r.random() < 0.6:
                            spec[ro]["unit"] = r.choice(BY_DIM.get(gd, [s["unit"]]) + [s["unit"]])
                else:
                    # make the result unit carry a numeric coefficient (m/cm -> 100) half of the time
                    if "y" in spec and r.random() < 0.5:
                        alts = [u for u in BY_DIM.get(self.dim_of(spec["x"]["unit"]), []) if u != spec["x"]["unit"]]
                        if alts:
                            spec["y"]["unit"] = r.choice(alts)
            elif kind == "other_registry":
                s["reg"] = "R"
                if r.random() < 0.5:
                    s["unit"] = r.choice(sorted(CUSTOM_ONLY))
            elif kind == "nondimless_exp":
                s["unit"] = r.choice(["cm", "s", "K"])
            elif kind == "nonuniform_exp":
                s["unit"] = "dimensionless"
                s["vals"] = [1.0, 2.0, 3.0]
        elif site == "u":
            if kind == "unknown_unit":
                p["u"] = "nosuchunit"
            elif kind == "absent_symbol":
                p["u"] = "code_length" if self.dim_of(xunit) == "length" else "code_mass"
            elif kind == "dim_mismatch_u":
                p["u"] = self.pick_unit(avoid_dim=xdim)
            elif kind == "garbage_u":
                p["u"] = r.choice(["cm**", "1/", "m m", "$", "cm**s"])
        elif site == "sys":
            if kind == "irreducible":
                p["sys"] = "cgs"
                for s in spec.values():
                    s["unit"] = r.choice(["A*m", "Wb"])
            else:
                p["sys"] = "no_such_system"
        elif site == "equiv":
            if kind == "bad_equiv_name":
                p["equiv"] = "nonsense"
            elif kind == "equiv_not_covering":
                p["equiv"] = "thermal" if p.get("equiv") != "thermal" else "mass_energy"
                if r.random() < 0.5:
                    p["u"] = self.pick_unit(avoid_dim=xdim)
            elif kind == "bad_kw_value":
                # a keyword the equivalence does take, with a value it cannot compute with: the failure comes
                # from inside the conversion chain, not from argument binding
                eq = r.choice([("K", "km/s", "sound_speed"), ("cm/s", "K", "sound_speed"), ("cm/s", "keV", "sound_speed"),
                               ("keV", "km/s", "sound_speed"), ("g/cm**3", "cm**-3", "number_density"),
                               ("cm**-3", "g/cm**3", "number_density")])
                for s_ in spec.values():
                    s_["unit"] = eq[0]
                p["u"], p["equiv"] = eq[1], eq[2]
                p["kw"] = {r.choice(["mu", "gamma"] if eq[2] == "sound_speed" else ["mu"]): r.choice([None, "heavy", [1, 2]])}
            else:
                p["kw"] = {"bogus": 1.0}
        elif site == "e":
            p["e"] = {"fractional_exp": 0.3333, "zero_exp": 0, "str_exp": "two"}[kind]
        elif site == "idx":
            p["idx"] = 17
        elif site == "env":
            warn = True
            tr = t.target or "x"
            spec[tr]["dtype"] = r.choice(["int64", "int64", "int32"])
            spec[tr]["big"] = spec[tr]["dtype"] == "int64"
            if spec[tr]["dtype"] == "int32":
                spec[tr]["vals"] = [16777219, 16777221, 16777223][: 3]
        # --- realise roles as heap entries
        args = {}
        made = {}
        for role in t.roles:
            s = spec[role]
            if s["reuse"] is not None and s["reuse"][0] in made:
                src, how = s["reuse"]
                if how == "self":
                    args[role] = made[src]
                else:
                    ops.append({"k": "view", "of": made[src], "how": how})
                    args[role] = base_n + sum(1 for o in ops if o["k"] in ("mk", "view")) - 1
                made[role] = args[role]
                continue
            # sometimes reuse an object that already lives on the heap (sequences / aliasing)
            # (never for the power templates: an exponent taken from the heap may be an array of integers beyond
            # 2**24, and unit ** 16777219 makes sympy allocate tens of gigabytes - a hang, not a verdict)
            if kind == "none" and w.ents and r.random() < self.cfg["p_reuse"] and "pow" not in name:
                args[role] = r.randrange(len(w.ents))
                made[role] = args[role]
                continue
            ops.append(self.mk(s["unit"], s["dtype"], tuple(s["shape"]), s["reg"], s["ro"], s["q"] and tuple(s["shape"]) == (),
                               s["positive"], s["big"], s.get("vals")))
            if s.get("cls"):
                ops[-1]["cls"] = s["cls"]
                ops[-1]["q"] = False
            idx = base_n + sum(1 for o in ops if o["k"] in ("mk", "view")) - 1
            if s["view"] is not None and view_ok(s["view"], tuple(s["shape"])):
                ops.append({"k": "view", "of": idx, "how": s["view"]})
                idx += 1
            args[role] = idx
            made[role] = idx
        ops.append({"k": "call", "t": name, "a": args, "p": p, "fault": label, "warn": warn})
        self.ncalls += 1
        return ops


def make_config(rng):
    r = rng
    return {
        "dtypes": sorted(set(r.sample(DTYPES, r.randrange(2, 6)))),
        "n_calls": r.choice([1, 1, 2, 3, 4, 6]),
        "p_reuse": r.choice([0.0, 0.3, 0.6]),
        "p_fault": r.choice([0.5, 0.7, 0.9]),
    }


# --------------------------------------------------------------- executor


_SUBS = {}


def _subclasses():
    """Two sibling user subclasses of unyt_array (as yt's YTArray and another package's would be)."""
    if not _SUBS:
        unyt, ua, uo, ur = _mods()
        _SUBS["A"] = type("SimArrayA", (unyt.unyt_array,), {})
        _SUBS["B"] = type("SimArrayB", (unyt.unyt_array,), {})
    return _SUBS


def do_mk(w, op):
    unyt, ua, uo, ur = _mods()
    dt = op["dt"]
    vals = op["vals"]
    if dt.startswith("complex"):
        vals = [complex(v[0], v[1]) for v in vals]
    # (copy: reshape returns a view, and a root must OWN its memory - root.base is None - to stand for "a plain
    # ndarray the caller created", which is what library code may be tempted to treat as a private temporary)
    root = np.array(vals, dtype=dt).reshape(op["shape"]).copy()
    if op.get("ro"):
        root.flags.writeable = False
    reg = w.reg(op["reg"])
    if op.get("q") and root.shape == ():
        obj = unyt.unyt_quantity(root, op["unit"], registry=reg)
    else:
        obj = unyt.unyt_array(root, op["unit"], registry=reg)
    if op.get("cls"):
        obj = obj.view(_subclasses()[op["cls"]])
    if not np.shares_memory(obj, root) and root.size:
        raise HarnessError("mk: object does not view its root")
    w.roots.append(root)
    w.ents.append(Entry(obj, len(w.roots) - 1, []))


def do_view(w, op):
    e = w.ent(op["of"])
    how = op["how"]
    if not view_ok(how, e.obj.shape):
        how = "same"
    obj = VIEWS[how](e.obj)
    w.ents.append(Entry(obj, e.root, e.chain + [how]))


def classify(obj):
    a = np.asarray(obj)
    cls = [a.dtype.kind]
    if not a.flags.writeable:
        cls.append("ro")
    if a.base is not None and not a.flags.c_contiguous:
        cls.append("nc")
    if a.ndim == 0:
        cls.append("0d")
    return "".join(cls)


class Sim18:
    def __init__(self, chan, cfg):
        self.chan = chan
        self.cfg = cfg
        self.w = W18(cfg)
        self.log = EventLog()
        self.violations = []
        self.stats = {"ops": {}, "skipped": 0, "exc": {}, "faults": {}, "within_tol": 0}
        self.cells = []  # (cell tuple string, nontrivial)
        self.failed_calls = []
        self.failed_targets = set()
        self.numpy_tainted = set()
        self.step_no = 0
        self.oracleC = {"checked": 0, "skipped_int": 0, "twin_raised": 0}

    def violate(self, oracle, detail, sigparts):
        self.violations.append({"oracle": oracle, "props": ["C18"], "step": self.step_no, "detail": detail,
                                "sig": "|".join([oracle] + [str(s) for s in sigparts])})

    def step(self, op, index):
        self.step_no += 1
        k = op["k"]
        rec = {"step": self.step_no, "op": op}
        try:
            if k == "mk":
                do_mk(self.w, op)
            elif k == "view":
                do_view(self.w, op)
            elif k == "call":
                rec["out"] = self.do_call(op, index)
            else:
                raise HarnessError(k)
        except rw.Skip:
            self.stats["skipped"] += 1
            rec["out"] = "skipped"
        self.stats["ops"][k] = self.stats["ops"].get(k, 0) + 1
        self.log.add(rec)
        return rec

    def do_call(self, op, index):
        w = self.w
        t = templates()[op["t"]]
        ents = {r: w.ent(i) for r, i in op["a"].items()}
        A = {r: e.obj for r, e in ents.items()}
        if op["t"].endswith("_ndroot"):
            # the plain ndarray that OWNS the memory role y views: an operand without units
            A["y_root"] = w.roots[ents["y"].root]
        p = op.get("p", {})
        fault = op.get("fault", "none")
        self.stats["faults"][fault.split("@")[0]] = self.stats["faults"].get(fault.split("@")[0], 0) + 1
        before = snapshot(w)
        self._before_ents = before["ents"]
        # pre-call copies for the copying twin (oracle C)
        twin = templates().get(t.twin) if t.twin else None
        copies = None
        if twin is not None:
            copies = {}
            for r in twin.roles:
                o = A[r]
                copies[r] = type(o)(np.array(np.asarray(o), copy=True), o.units, name=getattr(o, "name", None))
        out, res, exc = self.invoke(t.fn, A, p, op.get("warn"))
        after = snapshot(w)
        raised = exc is not None
        if raised:
            self.stats["exc"][type(exc).__name__] = self.stats["exc"].get(type(exc).__name__, 0) + 1
            self.failed_calls.append(index)
        tgt_ent = ents.get(t.target) if t.target else None
        tgt_idx = w.ents.index(tgt_ent) if tgt_ent is not None else None
        if raised and tgt_idx is not None:
            self.failed_targets.add(tgt_idx)
        nontrivial = raised
        if tgt_ent is not None and not raised:
            c = classify(tgt_ent.obj)
            nontrivial = bool(tgt_ent.chain) or before["ents"][tgt_idx]["dtype"][0] in "iu" or len(set(op["a"].values())) < len(op["a"])
        cell = "%s|%s|%s" % (op["t"], fault, ",".join(classify(A[r]) for r in sorted(A)))
        self.cells.append((cell, bool(nontrivial)))
        # ---------------- oracle A
        self.oracle_a(op, t, before, after, tgt_idx, raised, out)
        if self.numpy_tainted and tgt_idx is not None and not raised:
            # numbers NumPy itself left behind in a failed call flow on into whatever is computed from them
            if any(w.ents.index(e) in self.numpy_tainted for r, e in ents.items() if r != t.target):
                troot = w.ents[tgt_idx].root
                self.numpy_tainted.update(j for j, e2 in enumerate(w.ents) if e2.root == troot)
        # ---------------- oracle C
        if twin is not None and not raised and tgt_idx is not None:
            aliased = t.cat == "ifunc" and any(e.root == tgt_ent.root for r, e in ents.items() if r != t.target)
            if aliased:
                # np.put / place / putmask / item assignment whose VALUE shares the target's buffer: NumPy itself
                # does not define the result (no overlap protection outside ufuncs), so there is nothing to expect
                self.oracleC["skipped_value_aliases_target"] = self.oracleC.get("skipped_value_aliases_target", 0) + 1
            else:
                self.oracle_c(op, t, twin, copies, p, tgt_ent, before["ents"][tgt_idx])
        # ---------------- result of a copying call, then an in-place call on that result
        if not raised and not self.violations and (op["t"] in COPYING_RESULT or t.cat in ("op", "ufunc", "ufunc_red", "cmp")
                                                   or op["t"] in ("getitem_int", "getitem_last", "iter_first", "u_mul_arr", "u_rmul_scalar", "u_rdiv_scalar", "np.histogram", "np.histogram_bins_arr",
                                                                "np.histogram_range_qq", "uconcatenate", "ustack", "np.concatenate",
                                                                "np.stack", "np.vstack", "np.hstack", "np.where", "np.clip",
                                                                "np.insert", "np.append", "np.pad", "np.tile", "np.sort",
                                                                "np.cumsum", "np.diff", "np.around", "np.take",
                                                                "np.concatenate_single", "np.stack_single", "np.tile_1", "np.pad_0",
                                                                "np.around_0", "np.diff_n2", "np.append_empty", "np.where_true",
                                                                "np.clip_wide", "np.take_all", "np.cumsum_axis0", "np.sort_axis0",
                                                                "np.nan_to_num", "np.copy", "np.unique", "np.gradient", "np.ediff1d",
                                                                "np.cumprod", "np.linspace", "np.interp", "np.select", "np.outer",
                                                                "np.cross", "np.kron", "np.union1d", "np.intersect1d", "uvstack",
                                                                "uhstack", "ucross", "uunion1d", "uintersect1d", "unyt_array([x,y])")):
            # (the constructors unyt_array(x) / unyt_array(x, u) / unyt_quantity(x) are not here: like np.asarray they
            # wrap an existing array without copying, and the property does not list them among the copying calls)
            self.result_then_inplace(op, t, res, after)
        return out

    def result_then_inplace(self, op, t, res, after):
        """`b = a.to(u); b *= 2` is a two-call program whose second call has
        b as its only target: nothing else on the heap may change.  (It does
        when the 'copy' the first call returned shares a's buffer.)"""
        w = self.w
        done = 0
        for r in (res if isinstance(res, tuple) else (res,)):
            if not isinstance(r, np.ndarray) or r.size == 0 or not r.flags.writeable or r.dtype.kind == "b":
                continue
            try:
                with warnings.catch_warnings():
                    warnings.simplefilter("ignore")
                    with np.errstate(all="ignore"):
                        try:
                            r *= 2
                        except Exception:  # offset / logarithmic units refuse: another in-place call then
                            r.fill(1)
                done += 1
            except Exception:
                continue
        if not done:
            return
        self.stats["faults"]["result_mutated_in_place"] = self.stats["faults"].get("result_mutated_in_place", 0) + 1
        again = snapshot(w)
        for i, (b, a) in enumerate(zip(after["ents"], again["ents"])):
            bad = [f for f in ("dtype", "shape", "units", "bytes") if b[f] != a[f]]
            if bad:
                self.violate("A-inplace-on-result-changed-input",
                             {"call": op, "then": "result *= 2 (or result.fill(1))", "object": i, "changed": bad,
                              "before": {"vals": repr(b["vals"]), "units": b["units"][:4]},
                              "after": {"vals": repr(a["vals"]), "units": a["units"][:4]}},
                             [t.cat, op["t"], ",".join(bad)])
                return

    def invoke(self, fn, A, p, warn):
        with warnings.catch_warnings():
            warnings.simplefilter("ignore")
            if warn:
                for text in WARN_TEXTS:
                    warnings.filterwarnings("error", message=text)
            try:
                with np.errstate(all="ignore"):
                    res = fn(A, p)
            except rw.Skip:
                raise
            except Exception as e:
                tb_harness = rw.harness_frame(e.__traceback__)
                refusal = isinstance(e, (TypeError, ValueError, IndexError, KeyError))
                if tb_harness and not refusal:
                    raise HarnessError("harness bug in template:\n" + __import__("traceback").format_exc())
                return {"exc": type(e).__name__}, None, e
        return {"ok": True}, res, None

    def numpy_baseline(self, op, t, fn, before):
        """What bare NumPy does for the same call on bare ndarray copies of
        the pre-call operands: (exception class name or None, target numbers
        changed?).  unyt is not asked for more failure-atomicity or more
        in-place/copy symmetry than NumPy's own primitives provide."""
        w = self.w
        bare = {}
        for r, i in op["a"].items():
            b = before["ents"][w.ents.index(w.ent(i))]
            bare[r] = np.frombuffer(b["bytes"], dtype=b["dtype"]).reshape(b["shape"]).copy()
        tgt0 = bare[t.target].copy() if t.target in bare else None
        try:
            with warnings.catch_warnings():
                warnings.simplefilter("ignore")
                with np.errstate(all="ignore"):
                    fn(bare, op.get("p", {}))
            exc = None
        except Exception as e:  # noqa: BLE001 - any refusal by NumPy is the datum
            exc = type(e).__name__
        changed = False
        if tgt0 is not None:
            changed = not same_numbers(tgt0.ravel().tolist(), bare[t.target].ravel().tolist())
        return exc, changed

    def oracle_a(self, op, t, before, after, tgt_idx, raised, out):
        w = self.w
        name = op["t"]
        tgt_root = w.ents[tgt_idx].root if tgt_idx is not None else None
        mask = w.mask(w.ents[tgt_idx]) if tgt_idx is not None else None
        operand_idx = {w.ents.index(w.ent(i)) for i in op["a"].values()}
        # Did bare NumPy, given the same call on bare copies, raise the same
        # exception after a partial write into the target?  Then the changed
        # numbers of the target - and the bytes other views of that buffer see
        # there - are NumPy's own failure non-atomicity, not unyt's.
        numpy_partial_write = False
        if raised and tgt_idx is not None and t.cat in ("ufunc_out", "func_out", "ifunc", "iop", "ufunc_at"):
            tb, ta = before["ents"][tgt_idx], after["ents"][tgt_idx]
            if not same_numbers(tb["vals"], ta["vals"]) and tb["shape"] == ta["shape"] and tb["units"] == ta["units"]:
                bexc, bchanged = self.numpy_baseline(op, t, t.fn, before)
                if bexc == out.get("exc") and bchanged:
                    numpy_partial_write = True
                    self.stats["faults"]["numpy_itself_not_failure_atomic"] = \
                        self.stats["faults"].get("numpy_itself_not_failure_atomic", 0) + 1
                    # every view of that buffer is excused in B too
                    self.numpy_tainted.update(j for j, e2 in enumerate(w.ents) if e2.root == tgt_root)
        for i, (b, a) in enumerate(zip(before["ents"], after["ents"])):
            role = "operand" if i in operand_idx else "bystander"
            if i == tgt_idx:
                if not raised:
                    continue
                bad = []
                if not same_numbers(b["vals"], a["vals"]) or b["shape"] != a["shape"]:
                    bad.append("numbers")
                if b["units"] != a["units"]:
                    bad.append("unit")
                if bad == ["numbers"] and numpy_partial_write:
                    bad = []
                if bad:
                    self.violate("A-failed-inplace-changed-target",
                                 {"call": op, "exception": out.get("exc"), "changed": bad,
                                  "before": {"vals": [repr(v) for v in b["vals"]], "units": b["units"][:4], "dtype": b["dtype"]},
                                  "after": {"vals": [repr(v) for v in a["vals"]], "units": a["units"][:4], "dtype": a["dtype"]}},
                                 [t.cat, name.split(":")[0] if ":" in name else name, ",".join(bad), out.get("exc")])
                continue
            shares = tgt_idx is not None and w.ents[i].root == tgt_root
            bad = []
            for f in ("dtype", "shape", "strides", "units", "name", "cls", "writeable"):
                if b[f] != a[f]:
                    bad.append(f)
            if b["bytes"] != a["bytes"]:
                if shares and not raised:
                    pass  # sibling view of a successfully written target: checked on the root below
                elif shares and numpy_partial_write:
                    pass  # sees NumPy's own partial write into the target's buffer
                else:
                    bad.append("bytes")
            if bad:
                kind = "A-nonmutating-call-mutated" if tgt_idx is None else (
                    "A-failed-inplace-changed-other" if raised else "A-inplace-changed-other")
                self.violate(kind,
                             {"call": op, "exception": out.get("exc"), "object": i, "role": role, "changed": bad,
                              "shares_buffer_with_target": bool(shares),
                              "before": {k: (repr(v) if k != "bytes" else v.hex()[:64]) for k, v in b.items() if k in bad or k == "vals"},
                              "after": {k: (repr(v) if k != "bytes" else v.hex()[:64]) for k, v in a.items() if k in bad or k == "vals"}},
                             [t.cat, name.split(":")[0] if ":" in name else name, ",".join(bad), role, out.get("exc")])
        for ri, (rb, ra) in enumerate(zip(before["roots"], after["roots"])):
            if rb == ra:
                continue
            if tgt_idx is not None and ri == tgt_root and not raised:
                root = w.roots[ri]
                isz = root.dtype.itemsize
                m = mask.ravel()
                ok = True
                for j in range(m.size):
                    if not m[j] and rb[j * isz:(j + 1) * isz] != ra[j * isz:(j + 1) * isz]:
                        ok = False
                        break
                if ok:
                    continue
                self.violate("A-inplace-wrote-outside-target", {"call": op, "root": ri}, [t.cat, name, "outside-footprint"])
            elif tgt_idx is not None and ri == tgt_root and raised:
                pass  # reported through the entries above
            elif not any(e.root == ri for e in w.ents):
                self.violate("A-orphan-root-changed", {"call": op, "root": ri}, [t.cat, name])

    def oracle_c(self, op, t, twin, copies, p, tgt_ent, tgt_before):
        w = self.w
        unyt, ua, uo, ur = _mods()
        out2, res2, exc2 = self.invoke(twin.fn, copies, p, False)
        name = op["t"]
        if exc2 is not None and t.cat in ("ufunc_out", "func_out", "iop"):
            # does bare NumPy show the same asymmetry (out= picks another loop)?
            bexc, _ = self.numpy_baseline(op, t, twin.fn, {"ents": self._before_ents})
            if bexc is not None:
                self.oracleC["numpy_asymmetric"] = self.oracleC.get("numpy_asymmetric", 0) + 1
                return
        if exc2 is not None and any(np.asarray(c).dtype.kind == "b" for c in copies.values()):
            # unyt refuses to attach a unit to boolean data (Unit.__mul__), which the copying form of e.g.
            # np.stack does at the end and the out= form (a float buffer) never needs to: no numbers to compare,
            # and nothing the property speaks about
            self.oracleC["twin_raised_bool_payload"] = self.oracleC.get("twin_raised_bool_payload", 0) + 1
            return
        if exc2 is not None:
            self.oracleC["twin_raised"] += 1
            self.violate("C-inplace-succeeded-copy-refused", {"call": op, "copy_exception": type(exc2).__name__},
                         [t.cat, name.split(":")[0] if ":" in name else name, type(exc2).__name__])
            return
        tgt = tgt_ent.obj
        if isinstance(res2, tuple):
            return
        if res2 is None:
            return
        got = np.asarray(tgt)
        want = np.asarray(res2)
        int_payload = tgt_before["dtype"][0] in "iub" or any(np.asarray(c).dtype.kind in "iub" for c in copies.values())
        if got.shape != want.shape:
            try:
                want = np.broadcast_to(want, got.shape)
            except ValueError:
                want = want.reshape(got.shape) if got.size == want.size else want
        if got.shape != want.shape:
            if False:
                pass
            else:
                self.violate("C-inplace-differs-from-copy", {"call": op, "what": "shape", "inplace": list(got.shape), "copy": list(want.shape)},
                             [t.cat, name, "shape"])
                return
        bad = None
        if got.dtype != want.dtype or got.dtype.kind not in "fc":
            # out= buffer of another width/kind than the copying result, or an
            # integer image: the two routes legitimately round differently
            # (that is C17's subject); counted, not compared
            self.oracleC["skipped_int"] += 1
        elif int_payload and _subnormal_or_nonfinite(got, want):
            # DESIGN 2.10: an integer image converted through a same-width float whose conversion factor is
            # sub-normal there (int16 erg -> J in float16) legitimately differs between the two routes
            self.oracleC["skipped_int"] += 1
        else:
            exact = got.tobytes() == want.tobytes() or same_numbers(got.ravel().tolist(), want.ravel().tolist())
            if not exact:
                self.oracleC["within_tol"] = self.oracleC.get("within_tol", 0) + 1
                if __import__("os").environ.get("UNYTSIM_LIST_WITHIN_TOL"):
                    print("WITHIN-TOL", op["t"], op.get("p"), str(got.dtype), [classify(c) for c in copies.values()],
                          got.ravel().tolist()[:3], want.ravel().tolist()[:3], [str(c.units) for c in copies.values()], flush=True)
                wide_int = tgt_before["dtype"] in ("int64", "uint64") and all(
                    np.asarray(c).dtype.kind not in "iub" or np.asarray(c).dtype.itemsize == 8 for c in copies.values())
                if t.cat in ("iconv", "iequiv") and (not int_payload or wide_int):
                    # float and complex payloads of the in-place conversions: "exactly the numbers of the
                    # corresponding copying call" is taken literally (it holds to the bit on the pinned tree).
                    # 64-bit integer payloads too: both routes compute their image in float64 (narrower integers
                    # go through a same-width float in place and through float64 in the copying form: C17's subject)
                    bad = "numbers"
                # rounding tolerance at the NARROWEST floating type that took part: float32 operands written into a
                # float64 out= buffer are computed by another route than the copying form (operand rescaled in
                # float32 vs result rescaled in float64) and legitimately agree to float32 precision only
                # (met at VERIF_SEED=1: np.divide(x_f32 J, y_f32 dyn*cm, out=o_f64, where=mask), 1e-8 apart)
                tol_dt = str(got.dtype)
                for c in copies.values():
                    cd = np.asarray(c).dtype
                    if cd.kind in "fc" and cd.itemsize // (2 if cd.kind == "c" else 1) < np.dtype(tol_dt).itemsize // (2 if np.dtype(tol_dt).kind == "c" else 1):
                        tol_dt = {2: "float16", 4: "float32", 8: "float64"}[cd.itemsize // (2 if cd.kind == "c" else 1)]
                for x, y in zip(got.ravel().tolist(), want.ravel().tolist()):
                    if bad:
                        break
                    cx = [x.real, x.imag] if isinstance(x, complex) else x
                    cy = [y.real, y.imag] if isinstance(y, complex) else y
                    if not rw.close(cx, cy, tol_dt):
                        bad = "numbers"
                        break
        self.oracleC["checked"] += 1
        ub = None
        if isinstance(res2, unyt.unyt_array):
            if unit_tuple(tgt.units)[:4] != unit_tuple(res2.units)[:4]:
                if tgt.units != res2.units or str(tgt.units.dimensions) != str(res2.units.dimensions):
                    ub = "unit"
        if bad or ub:
            self.violate("C-inplace-differs-from-copy",
                         {"call": op, "what": [x for x in (bad, ub) if x],
                          "inplace": {"vals": [repr(v) for v in got.ravel().tolist()], "units": unit_tuple(tgt.units)[:4], "dtype": str(got.dtype)},
                          "copy": {"vals": [repr(v) for v in want.ravel().tolist()],
                                   "units": unit_tuple(res2.units)[:4] if hasattr(res2, "units") else None, "dtype": str(want.dtype)}},
                         [t.cat, name.split(":")[0] if ":" in name else name, ",".join(x for x in (bad, ub) if x)])


def _subnormal_or_nonfinite(*arrays):
    for a in arrays:
        a = np.asarray(a)
        if a.dtype.kind not in "fc" or a.size == 0:
            continue
        mag = np.abs(a).ravel()
        tiny = np.finfo(mag.dtype).tiny
        if (~np.isfinite(mag)).any() or ((mag > 0) & (mag < tiny)).any():
            return True
    return False


def run_ops(ops, cfg, chan=None, oracles=True):
    sim = Sim18(chan, cfg)
    for i, op in enumerate(ops):
        sim.step(op, i)
        if sim.violations and oracles:
            break
    return sim


def cold_eval(req):
    """World W': run the given op list (calls that failed in W removed) in a
    pristine process and return the final heap description."""
    sim = Sim18(None, req["cfg"])
    for i, op in enumerate(req["ops"]):
        sim.step(op, i)
    return {"world": describe_world(sim.w), "failed": sim.failed_calls,
            "violations": [v["sig"] for v in sim.violations]}


# ------------------------------------------------------------ curated sweep
# Deterministic part of the payload space: every in-place template x a curated
# list of unit pairs (same scale / other zero point, other scale, offset on
# either side, compound spellings, custom registry) x dtype x shape x view.
# The seeded grid visits each (template, role, fault) cell with ONE random
# payload per run; the pairs below are the ones where unit handling has a
# special case, and a random payload hits them about once in a hundred visits.

SWEEP_PAIRS = [("K", "degC"), ("degC", "K"), ("degF", "R"), ("R", "degF"), ("degC", "degF"), ("delta_degC", "K"),
               ("m", "cm"), ("cm", "km"), ("cm", "m"), ("erg", "J"), ("J", "erg"), ("N*m", "erg"), ("km/hr", "cm/s"),
               ("code_length", "m"), ("m", "m"), ("degree", "rad"), ("dimensionless", "percent")]
SWEEP_DTYPES = ["float64", "float32", "int64", "int16"]
SWEEP_SHAPES = [(3,), (), (1,)]
SWEEP_VIEWS = [None, "tail"]


def sweep_templates():
    T = templates()
    names = []
    for n, t in sorted(T.items()):
        if not t.target:
            continue
        if t.cat in ("iconv", "iop", "ifunc"):
            names.append(n)
        elif t.cat == "ufunc_out" and n.split(":")[0] == "ufw":
            names.append(n)
        elif t.cat == "ufunc_out" and n.split(":")[0] in ("ufo",) and n.split(":")[1] in (
                "add", "subtract", "multiply", "divide", "true_divide", "floor_divide", "maximum", "minimum", "hypot",
                "remainder", "fmod", "power", "sqrt", "square", "negative", "absolute", "copysign", "heaviside"):
            names.append(n)
    return names


def sweep_total():
    return len(sweep_templates()) * len(SWEEP_PAIRS) * len(SWEEP_DTYPES) * len(SWEEP_SHAPES) * len(SWEEP_VIEWS)


def sweep_case(index):
    names = sweep_templates()
    i = index % sweep_total()
    i, vi = divmod(i, len(SWEEP_VIEWS))
    i, si = divmod(i, len(SWEEP_SHAPES))
    i, di = divmod(i, len(SWEEP_DTYPES))
    i, pi = divmod(i, len(SWEEP_PAIRS))
    name = names[i % len(names)]
    t = templates()[name]
    a, b = SWEEP_PAIRS[pi]
    dt, shape, view = SWEEP_DTYPES[di], SWEEP_SHAPES[si], SWEEP_VIEWS[vi]
    if name == "np.fill_diagonal":
        shape = (2, 2)
    n = 1
    for d_ in shape:
        n *= d_
    base = [2.3, 3.7, 5.1, 7.9, 11.3]
    ops = []
    args = {}

    def mk(unit, dtype, shp, vals):
        reg = "R" if unit in CUSTOM_ONLY else "D"
        k = 1
        for d_ in shp:
            k *= d_
        v = (vals * (k + 1))[:k]
        if dtype.startswith("int"):
            # integers whose image under an inexact factor depends on the route (35 * 0.01 != 35 / 100)
            v = ([35, 57, 113, 7, 29] * (k + 1))[:k] if vals is base else [int(x) for x in v]
        ops.append({"k": "mk", "dt": dtype, "shape": list(shp), "vals": v, "unit": unit, "reg": reg, "ro": False,
                    "q": len(shp) == 0})
        return sum(1 for o in ops if o["k"] in ("mk", "view")) - 1

    for role in t.roles:
        if role == t.target:
            shp = shape
            if view == "tail" and len(shape) == 1:
                shp = (shape[0] + 1,)
            idx = mk(a if role != "o" else [a, "dimensionless", "degC", b][index % 4], dt, shp, base)
            if view == "tail" and len(shape) == 1:
                ops.append({"k": "view", "of": idx, "how": "tail"})
                idx += 1
            args[role] = idx
        elif role == "x":
            args[role] = mk(a, "float64" if t.target == "o" and index % 3 else dt, shape, base)
        else:
            yshape = () if (name == "np.fill_diagonal" or "idx" in t.params) else shape
            args[role] = mk(b, "float64", yshape, [1.0, 4.0, 0.5, 9.0])
    p = {}
    if "u" in t.params:
        p["u"] = b
    if "sys" in t.params:
        p["sys"] = SYSTEMS[index % len(SYSTEMS)]
    if "c" in t.params:
        p["c"] = [2.0, 3, 0.5][index % 3]
    if "e" in t.params:
        p["e"] = [2, 0.5, -1][index % 3]
    if "idx" in t.params:
        p["idx"] = () if len(shape) == 0 else (0 if shape[0] == 1 else [1, 2, 0][index % 3])
    ops.append({"k": "call", "t": name, "a": args, "p": p, "fault": "sweep", "warn": False})
    cfg = {"dtypes": SWEEP_DTYPES, "n_calls": 1, "p_reuse": 0.0, "p_fault": 0.0, "sweep": True}
    return ops, cfg


def simulate(chan, spec):
    rng = make_rng(spec["seed"], "C18", spec["run"])
    if spec.get("sweep") is not None and spec.get("ops") is None:
        ops_s, cfg_s = sweep_case(spec["sweep"])
        spec = dict(spec, ops=ops_s, cfg=cfg_s)
    cfg = spec.get("cfg") or make_config(rng)
    ops_in = spec.get("ops")
    sim = Sim18(chan, cfg)
    executed = []
    if ops_in is not None:
        for i, op in enumerate(ops_in):
            sim.step(op, i)
            executed.append(op)
            if sim.violations:
                break
    else:
        gen = Gen18(rng, cfg)
        cells = gen.cells
        # thorough coverage: run ids sweep the grid systematically; payloads are seeded
        first = (spec["run"] * 7919) % len(cells)
        prev_failed = None
        for c in range(cfg["n_calls"]):
            if c == 0:
                cell = cells[first]
            elif prev_failed is not None and rng.random() < 0.5:
                # once the fault is over: the same call, or its copying / in-place sibling, with the same
                # parameters and no fault - state a failed call left behind outside the heap (module-level
                # objects, memo tables) can only show in what such a call does
                gen.sticky = prev_failed[1]
                cell = (rng.choice(prev_failed[0]), "-", "none")
            elif rng.random() < cfg["p_fault"]:
                if rng.random() < 0.5:
                    cell = cells[rng.randrange(len(cells))]
                else:
                    # the ufunc templates are nine tenths of the grid: pick the category first, so that the
                    # conversion / equivalence / array-function cells are revisited with many payloads
                    by_cat = gen.cells_by_cat()
                    cat = sorted(by_cat)[rng.randrange(len(by_cat))]
                    cell = by_cat[cat][rng.randrange(len(by_cat[cat]))]
            else:
                name = sorted(templates())[rng.randrange(len(templates()))]
                cell = (name, "-", "none")
            stop = False
            nfail = len(sim.failed_calls)
            last_call = None
            for op in gen.group(sim.w, cell):
                sim.step(op, len(executed))
                executed.append(op)
                if op["k"] == "call":
                    last_call = op
                if sim.violations:
                    stop = True
                    break
            gen.sticky = None
            prev_failed = None
            if last_call is not None and len(sim.failed_calls) > nfail:
                prev_failed = (family(last_call["t"]), dict(last_call.get("p", {})))
            if stop:
                break
    # ---------------- oracle B: failed calls are no-ops
    b_info = None
    if not sim.violations and sim.failed_calls and chan is not None and not spec.get("no_b"):
        keep = [op for i, op in enumerate(executed) if i not in set(sim.failed_calls)]
        tag, payload = chan.cold({"ops": keep, "cfg": cfg})
        if tag != "ok":
            raise HarnessError(f"W' failed: {tag} {payload}")
        mine = describe_world(sim.w)
        theirs = payload["world"]
        diffs = []
        if payload["failed"]:
            diffs.append("a call that succeeded in W raised in W'")
        if len(mine) != len(theirs):
            diffs.append("heap size")
        else:
            for i, (m, t2) in enumerate(zip(mine, theirs)):
                for f in ("shape", "units", "reg", "name", "cls"):
                    if m[f] != t2[f]:
                        diffs.append(f"obj{i}.{f}")
                if m["dtype"] != t2["dtype"] and i not in sim.failed_targets:
                    diffs.append(f"obj{i}.dtype")
                if len(m["vals"]) != len(t2["vals"]):
                    diffs.append(f"obj{i}.len")
                elif i in sim.numpy_tainted:
                    pass
                else:
                    for cx, cy in zip(m["vals"], t2["vals"]):
                        if isinstance(cx, bool) or isinstance(cy, bool):
                            same = bool(cx) == bool(cy)
                        else:
                            same = rw.close(cx, cy, m["dtype"] if m["dtype"] in rw._EPS else "float64")
                        if not same:
                            diffs.append(f"obj{i}.vals")
                            break
        b_info = {"compared": True, "diffs": diffs}
        if diffs:
            sim.step_no += 1
            sim.violate("B-failed-call-not-a-noop", {"differences": diffs[:10], "failed_calls": sim.failed_calls,
                                                     "W": mine, "W_prime": theirs},
                        ["B", ",".join(sorted(set(d.split(".")[-1] for d in diffs)))])
    sim.stats["faults"] = dict(sorted(sim.stats["faults"].items()))
    grid_cells = sorted(set("|".join(c.split("|")[:2]) for c, _ in sim.cells))
    return {
        "prop": "C18", "seed": spec["seed"], "run": spec["run"], "cfg": cfg, "ops": executed,
        "violations": sim.violations, "other_violations": [], "digest": sim.log.hexdigest(), "steps": sim.step_no,
        "stats": sim.stats, "probes": {}, "shapes": sim.cells, "nontrivial": any(nt for _, nt in sim.cells),
        "cold_calls": chan.cold_calls if chan else 0,
        "extra": {"grid_cells_visited": grid_cells, "oracleC_checked": sim.oracleC["checked"],
                  "oracleC_skipped_integer_payload": sim.oracleC["skipped_int"],
                  "oracleC_equal_only_within_tolerance": sim.oracleC.get("within_tol", 0),
                  "oracleC_numpy_itself_asymmetric": sim.oracleC.get("numpy_asymmetric", 0),
                  "oracleB_worlds_compared": 1 if b_info else 0, "calls_raised": len(sim.failed_calls),
                  "sweep_cases_run": 1 if cfg.get("sweep") else 0,
                  "oracleC_skipped_value_aliases_target": sim.oracleC.get("skipped_value_aliases_target", 0),
                  "oracleC_twin_refused_bool_payload": sim.oracleC.get("twin_raised_bool_payload", 0)},
    }


def drop_entry_candidates(ops):
    """Minimiser hook: candidates with one unreferenced heap entry (mk/view
    op) removed and the later indices renumbered."""
    makers = [i for i, o in enumerate(ops) if o["k"] in ("mk", "view")]
    out = []
    for j, pos in enumerate(makers):
        used = False
        for o in ops[pos + 1:]:
            if o["k"] == "view" and o["of"] == j:
                used = True
            if o["k"] == "call" and j in o["a"].values():
                used = True
        if used:
            continue
        cand = []
        for i, o in enumerate(ops):
            if i == pos:
                continue
            o = dict(o)
            if i > pos:
                if o["k"] == "view" and o["of"] > j:
                    o["of"] -= 1
                if o["k"] == "call":
                    o["a"] = {r: (v - 1 if v > j else v) for r, v in o["a"].items()}
            cand.append(o)
        out.append(cand)
    return out
