"""An in-process stand-in for h5py (which is not installed here and cannot be fetched), so that
unyt's own write_hdf5 / from_hdf5 code runs against storage the simulator owns.

Only what unyt calls is there: File(name, "a" | "r"), `in`, [], del, keys(), create_group,
create_dataset(name, data=), Dataset.shape / .dtype / [...] get and set, .attrs (a mapping whose
iteration is over a snapshot of the names, as h5py's AttributeManager does), close().  "Files" live
in STORE (name -> tree of plain dicts); data and attribute values are copied on the way in and on
the way out, as a file would.  It is a STUB for the storage; everything on unyt's side is real.
"""

import sys
import types

import numpy as np

STORE = {}          # file name -> {"groups": {...}, "datasets": {...}}
COUNTERS = {"files_written": 0, "files_read": 0, "datasets": 0, "attrs": 0}


def _copy_value(v):
    if isinstance(v, np.ndarray):
        return np.array(np.asarray(v), copy=True)
    if isinstance(v, np.generic):
        return v.copy() if hasattr(v, "copy") else v
    return v


class _Attrs:
    def __init__(self, d, writable):
        self._d = d
        self._w = writable

    def keys(self):
        return list(self._d)

    def __iter__(self):
        return iter(list(self._d))

    def __contains__(self, k):
        return k in self._d

    def __getitem__(self, k):
        return _copy_value(self._d[k])

    def get(self, k, default=None):
        return _copy_value(self._d[k]) if k in self._d else default

    def __setitem__(self, k, v):
        if not self._w:
            raise OSError("file opened read-only")
        COUNTERS["attrs"] += 1
        self._d[k] = _copy_value(v)

    def __delitem__(self, k):
        if not self._w:
            raise OSError("file opened read-only")
        del self._d[k]


class _Dataset:
    def __init__(self, node, writable):
        self._n = node
        self._w = writable
        self.attrs = _Attrs(node["attrs"], writable)

    @property
    def shape(self):
        return self._n["data"].shape

    @property
    def dtype(self):
        return self._n["data"].dtype

    def __getitem__(self, idx):
        out = self._n["data"][idx]
        return np.array(out, copy=True) if isinstance(out, np.ndarray) else out

    def __setitem__(self, idx, value):
        if not self._w:
            raise OSError("file opened read-only")
        self._n["data"][idx] = np.asarray(value)


class _Group:
    def __init__(self, node, writable):
        self._n = node
        self._w = writable

    def keys(self):
        return list(self._n["groups"]) + list(self._n["datasets"])

    def __contains__(self, k):
        return k in self._n["groups"] or k in self._n["datasets"]

    def __getitem__(self, k):
        if k in self._n["groups"]:
            return _Group(self._n["groups"][k], self._w)
        if k in self._n["datasets"]:
            return _Dataset(self._n["datasets"][k], self._w)
        raise KeyError(f"Unable to open object (object '{k}' doesn't exist)")

    def __delitem__(self, k):
        if not self._w:
            raise OSError("file opened read-only")
        if k in self._n["groups"]:
            del self._n["groups"][k]
        elif k in self._n["datasets"]:
            del self._n["datasets"][k]
        else:
            raise KeyError(f"Couldn't delete link (name doesn't exist: {k})")

    def create_group(self, k):
        if not self._w:
            raise OSError("file opened read-only")
        if k in self:
            raise ValueError("Unable to create group (name already exists)")
        self._n["groups"][k] = {"groups": {}, "datasets": {}}
        return _Group(self._n["groups"][k], self._w)

    def create_dataset(self, k, data=None):
        if not self._w:
            raise OSError("file opened read-only")
        if k in self:
            raise ValueError("Unable to create dataset (name already exists)")
        COUNTERS["datasets"] += 1
        self._n["datasets"][k] = {"data": np.array(np.asarray(data), copy=True), "attrs": {}}
        return _Dataset(self._n["datasets"][k], self._w)


class File(_Group):
    def __init__(self, name, mode="r"):
        name = str(name)
        if mode == "r":
            if name not in STORE:
                raise FileNotFoundError(f"Unable to open file (unable to open file: name = '{name}')")
            COUNTERS["files_read"] += 1
        elif mode in ("a", "w", "r+"):
            if mode == "w" or name not in STORE:
                STORE[name] = {"groups": {}, "datasets": {}}
            COUNTERS["files_written"] += 1
        else:
            raise ValueError(mode)
        super().__init__(STORE[name], mode != "r")

    def close(self):
        self._w = False

    def __enter__(self):
        return self

    def __exit__(self, *a):
        self.close()


def install():
    """Make `from h5py import File` resolve to this stub (idempotent)."""
    m = sys.modules.get("h5py")
    if m is not None and getattr(m, "__unytsim_stub__", False):
        return m
    if m is not None:  # a real h5py: leave it alone
        return m
    m = types.ModuleType("h5py")
    m.File = File
    m.__version__ = "0.0-unytsim-stub"
    m.__unytsim_stub__ = True
    sys.modules["h5py"] = m
    return m
