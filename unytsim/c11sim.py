"""C11 - persisted quantities and units come back meaning and behaving the
same.  One run: build a registry (default or custom with edits) and an
object, persist it through one route, inject a volatile-state fault
(nothing / lru caches cleared / sympy cache lost / simulated restart /
restore in a pristine process), restore, then run a seeded battery of
follow-up operations on the original and the restored lineage, the scheduler
choosing which lineage goes first (the first one seeds the memo tables the
second one hits).

Oracles: O1 right after restore (numbers, dtype, shape, units, registry
contents), O2 every follow-up has the same outcome on both lineages, O3
savetxt under I/O faults (a write that returned normally loads back equal;
one that raised left its inputs untouched and a retry succeeds).
"""

import copy
import errno
import io
import json
import os
import pickle
import shutil
import warnings

import numpy as np

from . import regworld as rw
from . import seams
from .core import EventLog, HarnessError, make_rng, wchoice

# unit palette: (unit string, dimension class, guard class)
PALETTE = [
    ("cm", "length", "plain"), ("km", "length", "plain"), ("m", "length", "plain"), ("ft", "length", "plain"),
    ("g", "mass", "plain"), ("Msun", "mass", "plain"), ("s", "time", "plain"), ("yr", "time", "plain"),
    ("K", "temperature", "temp"), ("degC", "temperature", "temp_offset"), ("degF", "temperature", "temp_offset"),
    ("delta_degC", "temperature", "temp_delta"), ("delta_degF", "temperature", "temp_delta"), ("mK", "temperature", "temp"),
    ("R", "temperature", "temp"),
    ("rad", "angle", "angle"), ("degree", "angle", "angle"), ("arcsec", "angle", "angle"), ("arcmin", "angle", "angle"),
    ("lat", "angle", "angle_offset"), ("lon", "angle", "angle_offset"),
    ("dB", "log", "log"), ("Np", "log", "log"),
    ("G", "bfield_cgs", "em"), ("T", "bfield_mks", "em"), ("statC", "charge_cgs", "em"), ("C", "charge_mks", "em"),
    ("A", "current", "em"), ("V", "potential", "em"),
    ("percent", "none", "plain"), ("dimensionless", "none", "plain"), ("mol", "none", "plain"),
    ("erg", "energy", "plain"), ("J", "energy", "plain"), ("eV", "energy", "plain"),
    ("g*cm/s**2", "force", "compound"), ("kg*m**2/s**2", "energy", "compound"), ("cm**(3/2)*g**(1/2)/s", "other", "compound"),
    ("km/s", "velocity", "compound"), ("Msun/pc**3", "density", "compound"), ("erg/s/cm**2/Hz", "other", "compound"),
    ("sqrt(g)", "other", "compound"), ("K/m", "other", "compound"), ("degree/s", "other", "compound"),
    # custom symbols (only meaningful in the custom registry)
    ("code_length", "length", "custom"), ("kcode_length", "length", "custom"), ("code_length**2", "area", "custom"),
    ("code_temp", "temperature", "custom_offset"), ("code_mass/code_length**3", "density", "custom"),
    ("code_angle", "angle", "custom"), ("code_mass", "mass", "custom"),
    # custom symbols whose dimension is a COMPOSITE containing a guarded base dimension; times a length / time they
    # reduce to the bare guarded dimension, so the angle / temperature / logarithmic guards apply to the product
    ("code_twist*m", "angle", "custom_comp"), ("code_twist*code_length", "angle", "custom_comp"), ("code_twist", "other", "custom_comp"),
    ("code_tgrad*m", "temperature", "custom_comp"), ("code_lograte*s", "log", "custom_comp"), ("code_lograte", "other", "custom_comp"),
    # a symbol the user defined in the default registry
    ("verif_len", "length", "dadd"), ("kverif_len", "length", "dadd"), ("verif_len/s", "velocity", "dadd"),
    # prefixed forms that exist only where the registry re-added the base symbol as prefixable
    ("mdegF", "temperature", "custom_offset"), ("kft", "length", "custom"), ("mhr", "time", "custom"),
]
CUSTOM_SYMS = ("code_length", "code_temp", "code_mass", "code_angle", "code_twist", "code_tgrad", "code_lograte")
TARGETS = {
    "length": ["cm", "km", "ft", "pc", "code_length", "kcode_length", "Mcode_length", "m"],
    "mass": ["g", "kg", "Msun", "code_mass", "lb"],
    "time": ["s", "yr", "Myr", "ms"],
    "temperature": ["K", "degC", "degF", "R", "code_temp", "mK", "delta_degC"],
    "angle": ["rad", "degree", "arcsec", "code_angle", "mrad"],
    "log": ["dB", "Np"],
    "energy": ["erg", "J", "keV", "ft*lbf"],
    "velocity": ["cm/s", "km/hr", "code_length/s", "mile/hr"],
    "bfield_cgs": ["G", "uG", "T"], "bfield_mks": ["T", "G", "mT"],
    "charge_cgs": ["statC", "C"], "charge_mks": ["C", "statC", "mC"],
    "density": ["g/cm**3", "kg/m**3", "code_mass/code_length**3", "Msun/kpc**3"],
    "area": ["cm**2", "code_length**2", "km**2"],
    "none": ["dimensionless", "percent"], "force": ["dyn", "N", "lbf"],
    "current": ["A", "statA"], "potential": ["V", "statV"],
}
SYSTEMS = ["mks", "cgs", "imperial", "galactic", "solar", "planck", None]
ROUTES = ["pickle", "pickle", "pickle", "deepcopy", "deepcopy", "copy", "method_copy", "unitcopy", "unitcopy_deep",
          "str", "repr", "json", "json", "savetxt", "regdeepcopy", "pickle_nested", "deepcopy_nested"]
CHAOS = ["none", "none", "clear_lru", "clear_sympy", "restart", "fresh_process"]
FOLLOW = ["sin", "cos", "tan", "mul2", "mulself", "divself", "pow2", "sqrt", "addself", "subself", "addK", "diff", "ptp",
          "mulm", "to", "to", "to", "in_base", "in_base", "in_cgs", "in_mks", "eq_other", "add_other", "sub_other",
          "same_dims", "str", "unit_roundtrip", "convert", "neg", "cmp", "mean", "unit_mul", "unit_pow", "hash_eq",
          "is_dimensionless", "base_equiv", "mul_unit_other", "concatenate", "setitem",
          "to_other_units", "to_equiv", "arr_from_list", "stack", "dot", "where", "sort", "unit_div_other", "unit_eq_str",
          "div_other", "clip"]
EQUIVS = [("spectral", "Hz"), ("spectral", "erg"), ("thermal", "erg"), ("thermal", "K"), ("mass_energy", "g"),
          ("mass_energy", "J"), ("lorentz", "dimensionless"), ("schwarzschild", "g"), ("compton", "cm"),
          ("number_density", "cm**-3"), ("sound_speed", "K"), ("effective_temperature", "K"), ("electromagnetic_si", "T"),
          ("nonexistent_equivalence", "m")]


def _m():
    import unyt
    import unyt.unit_object as uo
    import unyt.unit_registry as ur

    return unyt, uo, ur


class Lineage:
    """An object together with the registry it lives in."""

    def __init__(self, obj, reg):
        self.obj = obj
        self.reg = reg


class Stub:
    """Minimal 'world' for regworld.describe: names registries relative to
    the lineage (own / default / other)."""

    ORIGINAL_IS_DEFAULT = False  # set per run: the original lineage lives in the default registry

    def __init__(self, own):
        unyt, uo, ur = _m()
        self.own = own
        self.D = ur.default_unit_registry

    def node_of(self, reg):
        if reg is self.own or getattr(reg, "lut", None) is getattr(self.own, "lut", 0):
            return "own"
        if reg is self.D:
            # a result bound to the default registry (e.g. the module-level
            # delta_degC that temperature differences return): for an original
            # that lives in the default registry that *is* its own registry
            return "own" if Stub.ORIGINAL_IS_DEFAULT else "default"
        return "other"


def table_plain(reg):
    return {k: rw.entry_plain(v) for k, v in sorted(reg.lut.items())}


def explicit_diff(a, b):
    """Differences between two registry tables (explicit contents)."""
    out = []
    for k in sorted(set(a.lut) | set(b.lut)):
        if k not in a.lut:
            out.append(("extra", k))
        elif k not in b.lut:
            out.append(("missing", k))
        elif not rw.entry_eq(a.lut[k], b.lut[k]):
            out.append(("changed", k))
    return out


class FaultyWriter(io.StringIO):
    """The file object handed to savetxt: ENOSPC after `limit` characters."""

    def __init__(self, limit):
        super().__init__()
        self.limit = limit
        self.fired = False

    def write(self, s):
        if self.limit is not None and self.tell() + len(s) > self.limit:
            super().write(s[: max(0, self.limit - self.tell())])
            self.fired = True
            raise OSError(errno.ENOSPC, "No space left on device (simulated)")
        return super().write(s)


# --------------------------------------------------------------- building


def build_registry(op):
    unyt, uo, ur = _m()
    if op is None or op.get("route") == "default":
        # (every run is a pristine forked process: symbols a run adds to the default registry are gone with it)
        for e in (op or {}).get("edits", []):
            apply_edit(ur.default_unit_registry, e)
        return ur.default_unit_registry
    if op["route"] == "usys":
        reg = ur.UnitRegistry(unit_system=op.get("usys", "cgs"))
    elif op["route"] == "empty_plus":
        reg = ur.UnitRegistry(add_default_symbols=False)
        for k in ("m", "s", "g", "K", "rad", "kg", "cm", "A", "cd", "Np", "degC", "degree", "dB", "erg", "J", "pc", "ft",
                  "G", "T", "C", "statC", "yr", "Msun", "degF", "delta_degC", "delta_degF", "R", "hr", "lb", "lbf", "dyn",
                  "N", "Hz", "kpc", "Myr", "Mearth", "AU", "mile", "lat", "lon", "arcsec", "arcmin", "percent", "mol",
                  "eV", "V", "statV", "statA", "W", "Pa", "esu", "gauss", "l_pl", "m_pl", "t_pl", "T_pl", "q_pl", "E_pl",
                  "l_geom", "m_geom", "t_geom", "hp", "Wb", "H", "F", "ohm", "lm", "day", "min"):
            e = ur.default_unit_symbol_lut.get(k)
            if e is None:
                continue
            reg.add(k, float(e[0]), e[1], tex_repr=e[3], offset=float(e[2]), prefixable=e[4])
    else:
        reg = ur.UnitRegistry()
    for e in op.get("edits", []):
        apply_edit(reg, e)
    return reg


def apply_edit(reg, e):
    unyt, uo, ur = _m()
    try:
        if e["k"] == "add":
            reg.add(e["sym"], e["scale"], rw._dims(e["dims"]), offset=e.get("offset"), prefixable=e.get("prefixable", False))
        elif e["k"] == "modify":
            reg.modify(e["sym"], e["value"])
        elif e["k"] == "remove":
            reg.remove(e["sym"])
        elif e["k"] == "define":
            uo.define_unit(e["sym"], (e["v"], e["s"]), registry=reg, prefixable=e.get("prefixable", False))
    except Exception as ex:  # an edit that is refused is simply not part of the contents
        if rw.harness_frame(ex.__traceback__):
            raise
        return False
    return True


def build_object(op, reg):
    unyt, uo, ur = _m()
    kind = op["kind"]
    if kind == "unit":
        return uo.Unit(op["unit"], registry=reg)
    vals = op["v"]
    if op["dtype"].startswith("complex"):
        if kind == "array":
            vals = [complex(v[0], v[1]) for v in vals]
        else:
            vals = complex(vals[0], vals[1])
    if kind == "quantity":
        x = unyt.unyt_quantity(np.array(vals, dtype=op["dtype"])[()], op["unit"], registry=reg, name=op.get("name"))
    else:
        x = unyt.unyt_array(lay_out(np.array(vals, dtype=op["dtype"]), op.get("layout")), op["unit"], registry=reg,
                            name=op.get("name"))
    return derive(x, op.get("derive"))


DERIVED = ["ratio", "in_base", "sqrt_sq", "muldiv", "double"]


def derive(x, how):
    """Objects whose unit was PRODUCED BY ARITHMETIC, not parsed from a string: what is persisted in practice is mostly
    this kind (ratios, sums, results of conversions).  Their unit objects differ from parsed ones in representation -
    expression `1` for a ratio, units handed out by a unit system - and must survive all the same."""
    if not how:
        return x
    unyt, uo, ur = _m()
    try:
        with warnings.catch_warnings():
            warnings.simplefilter("ignore")
            if how == "ratio":
                return x / unyt.unyt_quantity(1.0, x.units)
            if how == "in_base":
                return x.in_base()
            if how == "sqrt_sq":
                return np.sqrt(x * x)
            if how == "muldiv":
                q = unyt.unyt_quantity(2.0, x.units)
                return (x * q) / q
            if how == "double":
                return x + x
    except Exception as e:  # noqa: BLE001 - a refusal of the arithmetic is not this property's business
        if rw.harness_frame(e.__traceback__):
            raise
        return x
    raise HarnessError(how)


LAYOUTS = ["col", "2d", "2dF", "T", "strided", "rev", "0d", "empty", "readonly", "view_of_big"]


def lay_out(base, layout):
    """Less ordinary memory layouts of the same numbers: what is persisted is the logical array, whatever its strides,
    order, writability or the size of the buffer it is a window on."""
    if not layout:
        return base
    two = np.stack([base, base[::-1]])
    if layout == "col":
        return base.reshape(-1, 1)
    if layout == "2d":
        return two
    if layout == "2dF":
        return np.asfortranarray(two)
    if layout == "T":
        return two.T
    if layout == "strided":
        return np.repeat(base, 2)[::2]
    if layout == "rev":
        return base[::-1]
    if layout == "0d":
        return base[:1].reshape(())
    if layout == "empty":
        return base[:0]
    if layout == "readonly":
        b = base.copy()
        b.flags.writeable = False
        return b
    if layout == "view_of_big":
        big = np.concatenate([base, base, base])
        return big[len(base):2 * len(base)]
    raise HarnessError(layout)


# -------------------------------------------------------------- roundtrip


def persist(obj, reg, op, scratch):
    """-> durable payload (bytes / text / in-memory copy marker)."""
    unyt, uo, ur = _m()
    route = op["route"]
    if route == "pickle":
        return ("pickle", pickle.dumps(obj, protocol=op.get("proto", 4)))
    if route == "pickle_nested":
        # a container: the object several times, and a SIBLING - another array of the same registry - next to it
        sib = unyt.unyt_array(np.array([1.0, 2.0]), "m" if "m" in reg.lut else "", registry=reg)
        return ("pickle_nested", pickle.dumps({"a": [obj, (obj, 1.0)], "b": obj, "sibling": sib, "raw": np.arange(3)},
                                              protocol=op.get("proto", 4)))
    if route in ("deepcopy", "copy", "method_copy", "unitcopy", "unitcopy_deep", "deepcopy_nested", "regdeepcopy"):
        return (route, None)
    if route in ("str", "repr"):
        u = obj.units
        text = str(u) if route == "str" else repr(u)
        data = None if isinstance(obj, uo.Unit) else np.asarray(obj.d).copy()
        return (route, (text, data, type(obj).__name__))
    if route == "json":
        data = None if isinstance(obj, uo.Unit) else np.asarray(obj.d).copy()
        return ("json", (reg.to_json(), str(obj.units), data, type(obj).__name__))
    if route == "savetxt":
        raise HarnessError("savetxt handled separately")
    raise HarnessError(route)


def restore(payload, obj, reg, scratch):
    """-> (restored object, its registry)"""
    unyt, uo, ur = _m()
    route, data = payload
    if route == "pickle":
        r = pickle.loads(data)
        return r, r.units.registry
    if route == "pickle_nested":
        d = pickle.loads(data)
        r = d["a"][1][0]
        restore.sibling = d.get("sibling")
        return r, r.units.registry
    if route == "deepcopy":
        r = copy.deepcopy(obj)
        return r, r.units.registry
    if route == "deepcopy_nested":
        # the container also holds - FIRST - an object of ANOTHER registry with the same table and another unit system
        # (built over a fresh dict): one deepcopy call, two registries; each copy keeps its own
        restore.twin = None
        try:
            other = "cgs" if str(getattr(reg.unit_system, "name", "mks")) != "cgs" else "mks"
            treg = ur.UnitRegistry(lut=dict(reg.lut), add_default_symbols=False, unit_system=other)
            tu = uo.Unit(obj.units.expr if not isinstance(obj, uo.Unit) else obj.expr, registry=treg)
            twin = tu if isinstance(obj, uo.Unit) else unyt.unyt_array(np.asarray(obj.d).copy(), tu)
        except Exception as e:  # noqa: BLE001 - e.g. a unit predating an edit cannot be rebuilt from the table
            if rw.harness_frame(e.__traceback__):
                raise
            twin = None
        if twin is None:
            r = copy.deepcopy({"k": [obj, obj]})["k"][1]
            return r, r.units.registry
        d = copy.deepcopy({"twin": twin, "k": [obj, obj]})
        r = d["k"][1]
        rt_ = d["twin"]
        rtreg = (rt_ if isinstance(rt_, uo.Unit) else rt_.units).registry
        rreg = (r if isinstance(r, uo.Unit) else r.units).registry
        restore.twin = {"same_registry": rtreg is rreg,
                        "usys": [str(getattr(x.unit_system, "name", x.unit_system)) for x in (reg, rreg, treg, rtreg)]}
        return r, rreg
    if route == "copy":
        r = copy.copy(obj)
        return r, r.units.registry
    if route == "method_copy":
        r = obj.copy()
        return r, r.units.registry
    if route == "unitcopy":
        u = obj.units.copy()
        r = u if isinstance(obj, uo.Unit) else type(obj)(np.asarray(obj.d).copy(), u)
        return r, r.units.registry
    if route == "unitcopy_deep":
        u = obj.units.copy(deep=True)
        r = u if isinstance(obj, uo.Unit) else type(obj)(np.asarray(obj.d).copy(), u)
        return r, r.units.registry
    if route == "regdeepcopy":
        reg2 = copy.deepcopy(reg)
        u = uo.Unit(str(obj.units), registry=reg2)
        r = u if isinstance(obj, uo.Unit) else type(obj)(np.asarray(obj.d).copy(), u)
        return r, reg2
    if route in ("str", "repr"):
        text, arr, cls = data
        u = uo.Unit(text, registry=reg)
        r = u if arr is None else getattr(unyt, cls)(arr.copy(), u)
        return r, reg
    if route == "json":
        jtext, utext, arr, cls = data
        reg2 = ur.UnitRegistry.from_json(jtext)
        u = uo.Unit(utext, registry=reg2)
        r = u if arr is None else getattr(unyt, cls)(arr.copy(), u)
        return r, reg2
    raise HarnessError(route)


# ------------------------------------------------------------- follow-ups


def follow(fop, me, other):
    """One follow-up operation on lineage `me` (`other` is the other lineage,
    for the mixed operations).  Returns the result object."""
    unyt, uo, ur = _m()
    x = me.obj
    f = fop["f"]
    isunit = isinstance(x, uo.Unit)
    u = x if isunit else x.units
    if f in ("str",):
        return [str(u), repr(u)]
    if f == "unit_roundtrip":
        return uo.Unit(str(u), registry=me.reg) == u
    if f == "unit_mul":
        return u * u
    if f == "unit_pow":
        return u ** fop.get("p", 2)
    if f == "hash_eq":
        return [u == other.obj.units, u.same_dimensions_as(other.obj.units)]
    if f == "is_dimensionless":
        return [u.is_dimensionless, u.is_code_unit, u.is_atomic]
    if f == "base_equiv":
        return u.get_base_equivalent(fop.get("sys"))
    if f == "same_dims":
        return me.reg.list_same_dimensions(u)
    if f == "mul_unit_other":
        return u * other.obj.units
    if f == "unit_div_other":
        return u / other.obj.units
    if f == "unit_eq_str":
        return [u == uo.Unit(str(other.obj.units), registry=me.reg), str(u) == str(other.obj.units)]
    if isunit:
        x = 2.0 * x  # arithmetic follow-ups on a Unit act on a quantity made from it
    if f == "sin":
        return np.sin(x)
    if f == "cos":
        return np.cos(x)
    if f == "tan":
        return np.tan(x)
    if f == "mul2":
        return x * 2
    if f == "mulself":
        return x * x
    if f == "divself":
        return x / x
    if f == "pow2":
        return x ** 2
    if f == "sqrt":
        return np.sqrt(x)
    if f == "addself":
        return x + x
    if f == "subself":
        return x - x
    if f == "addK":
        return unyt.unyt_quantity(1.0, "K", registry=me.reg) + x
    if f == "diff":
        return np.diff(np.atleast_1d(x))
    if f == "ptp":
        return np.ptp(np.atleast_1d(x))
    if f == "mulm":
        return x * unyt.unyt_quantity(2.0, "m", registry=me.reg)
    if f == "to":
        return x.to(fop["u"])
    if f == "convert":
        y = x.copy()
        y.convert_to_units(fop["u"])
        return y
    if f == "in_base":
        return x.in_base(fop.get("sys"))
    if f == "in_cgs":
        return x.in_cgs()
    if f == "in_mks":
        return x.in_mks()
    if f == "neg":
        return [-x, abs(x)]
    if f == "mean":
        return [np.mean(x), np.sum(x), np.max(x)]
    o = other.obj
    if isinstance(o, uo.Unit):
        o = 2.0 * o
    if f == "eq_other":
        return x == o
    if f == "add_other":
        return x + o
    if f == "sub_other":
        return x - o
    if f == "cmp":
        return x <= o
    if f == "concatenate":
        return np.concatenate([np.atleast_1d(x), np.atleast_1d(o)])
    if f == "setitem":
        y = np.atleast_1d(x).copy()
        y[0] = np.atleast_1d(o)[0]
        return y
    if f == "to_other_units":
        # the OTHER lineage's unit object as the conversion target
        return x.to(o.units)
    if f == "to_equiv":
        return x.to_equivalent(fop["u"], fop["equiv"])
    if f == "arr_from_list":
        return unyt.unyt_array([np.atleast_1d(x)[0], np.atleast_1d(o)[0]])
    if f == "stack":
        return np.stack([np.atleast_1d(x), np.atleast_1d(o)])
    if f == "dot":
        return np.dot(np.atleast_1d(x), np.atleast_1d(o))
    if f == "where":
        x1, o1 = np.atleast_1d(x), np.atleast_1d(o)
        return np.where(np.asarray(x1.d).real > 0, x1, o1)
    if f == "sort":
        return [np.sort(np.atleast_1d(x)), np.argsort(np.atleast_1d(x))]
    if f == "div_other":
        return x / o
    if f == "clip":
        o1 = np.atleast_1d(o)
        return np.clip(np.atleast_1d(x), o1.min(), o1.max())
    raise HarnessError(f"unknown follow-up {f}")


def run_follow(fop, me, other):
    stub = Stub(me.reg)
    with warnings.catch_warnings():
        warnings.simplefilter("ignore")
        try:
            with np.errstate(all="ignore"):
                res = follow(fop, me, other)
        except HarnessError:
            raise
        except Exception as e:
            refusal = isinstance(e, TypeError) and ("not supported between" in str(e) or "unsupported operand" in str(e))
            if rw.harness_frame(e.__traceback__) and not refusal:
                raise HarnessError("harness bug in follow-up %r:\n%s" % (fop, __import__("traceback").format_exc()))
            return {"exc": type(e).__name__}
    return {"ok": rw.describe(res, stub)}


# -------------------------------------------------------------- generator


GEN2_ROUTES = ("pickle", "pickle", "deepcopy", "deepcopy_nested", "copy", "method_copy", "unitcopy", "unitcopy_deep", "json", "str",
               "regdeepcopy")
LATE_ROUTES = ("pickle", "pickle_nested", "deepcopy", "deepcopy_nested", "copy", "method_copy", "unitcopy", "unitcopy_deep")


def rw_tokens(s):
    import re

    return sorted(set(re.findall(r"[^\W\d]\w*", s.replace("sqrt", " "), re.UNICODE)))


def gen_registry(r):
    if r.random() < 0.35:
        if r.random() < 0.25:
            # the user's own symbol in the DEFAULT registry (define_unit / default_unit_registry.add)
            return {"route": "default", "edits": [{"k": "define", "sym": "verif_len", "v": r.choice([201.168, 3.0]), "s": "m",
                                                   "prefixable": True}]}
        return {"route": "default"}
    route = wchoice(r, [("plain", 5), ("usys", 2), ("empty_plus", 1)])
    op = {"route": route, "edits": []}
    if route == "plain" and r.random() < 0.08:
        return op   # a private registry nobody has edited yet: same contents as the default one, still its own object
    if route == "usys":
        op["usys"] = r.choice(["cgs", "imperial", "galactic", "solar"])
    op["edits"].append({"k": "add", "sym": "code_length", "scale": r.choice([3.0, 0.5, 1.0e21, 2.0]), "dims": "length",
                        "prefixable": True})
    if r.random() < 0.8:
        op["edits"].append({"k": "add", "sym": "code_mass", "scale": r.choice([5.0, 1.0e30, 0.25]), "dims": "mass",
                            "prefixable": r.random() < 0.5})
    if r.random() < 0.7:
        op["edits"].append({"k": "add", "sym": "code_temp", "scale": r.choice([1.0, 1.8, 2.0]), "dims": "temperature",
                            "offset": r.choice([273.15, 10.0, 0.0]), "prefixable": r.random() < 0.5})
    if r.random() < 0.6:
        op["edits"].append({"k": "add", "sym": "code_angle", "scale": r.choice([0.5, 0.017453292519943295]), "dims": "angle",
                            "prefixable": True})
    if r.random() < 0.5:
        for sym, dims_, scale_ in (("code_twist", "angle/length", 0.5), ("code_tgrad", "temperature/length", 2.0),
                                   ("code_lograte", "logarithmic/time", 3.0)):
            if r.random() < 0.7:
                op["edits"].append({"k": "add", "sym": sym, "scale": scale_, "dims": dims_, "prefixable": r.random() < 0.3})
    if r.random() < 0.5:
        op["edits"].append({"k": "modify", "sym": r.choice(["m", "ft", "pc", "Msun", "degree", "K"]),
                            "value": r.choice([2.0, 0.5, 3.0])})
    if r.random() < 0.3:
        # a default symbol re-added with its default scale and dimensions but another zero point / prefixability
        sym, dims_, scale_, off_ = r.choice([("lon", "angle", 0.017453292519943295, -3.141592653589793),
                                             ("lat", "angle", 0.017453292519943295, -1.5707963267948966),
                                             ("degF", "temperature", 0.5555555555555556, -459.67),
                                             ("degC", "temperature", 1.0, -273.15),
                                             ("ft", "length", 0.3048, 0.0), ("hr", "time", 3600.0, 0.0)])
        e = {"k": "add", "sym": sym, "scale": scale_, "dims": dims_, "offset": off_, "prefixable": False}
        v = r.random()
        if v < 0.3:
            # the same numbers, ANOTHER dimension (an angle declared dimensionless, a time declared a length)
            e["dims"] = "dimensionless" if dims_ in ("angle", "temperature") else r.choice(["dimensionless", "mass"])
        elif off_ != 0.0 and v < 0.7:
            e["offset"] = r.choice([0.0, off_ + 1.0])
        else:
            e["prefixable"] = True
        op["edits"].append(e)
    if r.random() < 0.35:
        op["edits"].append({"k": "remove", "sym": r.choice(["ft", "pc", "mile", "lb", "Mearth", "hp"])})
    if r.random() < 0.3:
        op["edits"].append({"k": "define", "sym": "furlong_ish", "v": 201.168, "s": "m", "prefixable": r.random() < 0.5})
    return op


def gen_values(r, dtype, n, guard):
    if guard == "angle" and r.random() < 0.5:
        pool = [90.0, 45.0, 30.0, 1.0, 0.5, 180.0]
    else:
        pool = [1.0, 2.0, 0.5, 10.0, 3.5, 273.15, 100.0, 0.25]
    if dtype.startswith("int") or dtype == ">i4":
        vals = [int(r.choice([1, 2, 3, 10, 90, 45])) for _ in range(n)]
    elif dtype.startswith("complex"):
        vals = [[r.choice(pool), r.choice(pool)] for _ in range(n)]
    else:
        vals = [r.choice(pool) for _ in range(n)]
    return vals


def gen_run(r, cfg):
    regop = gen_registry(r)
    custom = regop["route"] != "default"
    dadd = any(e.get("sym") == "verif_len" for e in regop.get("edits", []))
    pal = [p for p in PALETTE if (custom or not p[2].startswith("custom")) and (p[2] != "dadd" or (dadd and not custom))]
    # bias towards guard-relevant classes
    weights = {"plain": 1, "compound": 1.5, "temp": 2, "temp_offset": 4, "temp_delta": 2, "angle": 4, "angle_offset": 2,
               "log": 3, "em": 2, "custom": 4, "custom_offset": 4, "custom_comp": 5, "dadd": 25}
    unit, dim, guard = wchoice(r, [(p, weights[p[2]]) for p in pal])
    have = {e["sym"] for e in regop.get("edits", []) if e["k"] == "add"}
    if guard.startswith("custom") and not all(s in have for s in CUSTOM_SYMS if s in unit):
        unit, dim, guard = "code_length", "length", "custom"
    need = {"mdegF": "degF", "kft": "ft", "mhr": "hr"}
    if unit in need and not any(e["k"] == "add" and e["sym"] == need[unit] and e.get("prefixable")
                                for e in regop.get("edits", [])):
        unit, dim, guard = "code_length", "length", "custom"
    kind = wchoice(r, [("quantity", 4), ("array", 4), ("unit", 1.5)])
    dtype = wchoice(r, [("float64", 6), ("float32", 1), ("int64", 1.5), ("complex128", 0.7), (">f8", 0.5), (">i4", 0.3),
                        ("int8", 0.3), ("complex64", 0.3)])
    n = r.choice([2, 3, 4])
    route = r.choice(cfg["routes"])
    if dtype.startswith(">") and route not in ("copy", "method_copy", "deepcopy", "deepcopy_nested", "unitcopy", "unitcopy_deep"):
        # NumPy's own pickle hands back native byte order; the text routes carry no dtype at all
        dtype = "float64" if dtype == ">f8" else "int64"
    build = {"k": "build", "kind": kind, "dtype": dtype, "unit": unit, "dim": dim, "guard": guard,
             "v": gen_values(r, dtype, n, guard) if kind == "array" else gen_values(r, dtype, 1, guard)[0],
             "name": r.choice([None, "field"]), "prehash": r.random() < 0.3}
    if kind == "array" and route != "savetxt" and r.random() < 0.3:
        build["layout"] = r.choice(LAYOUTS)
    if kind != "unit" and route != "savetxt" and guard in ("plain", "compound", "custom") and not dtype.startswith(">") \
            and r.random() < 0.25:
        how = r.choice(DERIVED)
        if how == "ratio" and route in ("str", "repr", "json", "regdeepcopy"):
            # the text routes carry the NAME of the unit, and the name of the unit of a ratio ("dimensionless") denotes
            # the symbol of that name: an equal unit in another representation, by construction of str()
            how = "in_base"
        build["derive"] = how
        if how == "ratio":
            unit, dim = "dimensionless", "none"
    if route == "savetxt":
        build["kind"] = "array"
        build["v"] = gen_values(r, dtype, n, guard)
        if dtype.startswith("complex"):
            build["dtype"] = "float64"
            build["v"] = gen_values(r, "float64", n, guard)
    rt = {"k": "roundtrip", "route": route, "chaos": r.choice(cfg["chaos"])}
    if route.startswith("pickle"):
        rt["proto"] = r.choice([2, 3, 4, 5, 0, 1] if r.random() < 0.15 else [2, 3, 4, 5])
    if route == "savetxt":
        rt["io_fault"] = r.choice([None, None, 10, 40, 90, 200])
        rt["ncols"] = r.choice([1, 1, 2, 3])
        rt["footer"] = r.choice([None, None, "end of data", "a b c", "m s"])
        rt["delimiter"] = r.choice([None, None, ",", "\t"])
        rt["usecols"] = r.choice([None, None, [1, 0], [0], [1], [2, 0], [2, 1, 0], [0, 2]])
    if route not in ("pickle", "pickle_nested", "json", "str", "repr", "savetxt") and rt["chaos"] in ("restart", "fresh_process"):
        rt["chaos"] = r.choice(["none", "clear_lru", "clear_sympy"])  # in-memory copies do not survive a restart
    if route in ("str", "repr", "savetxt") and rt["chaos"] == "fresh_process" and custom:
        rt["chaos"] = "restart"
    if rt["chaos"] == "fresh_process" and r.random() < cfg.get("p_newint", 0.0):
        rt["chaos"] = "new_interpreter"  # exec of a real new interpreter instead of a pristine fork (~1 s)
    late = None
    if custom and r.random() < cfg.get("p_late", 0.0) and route in LATE_ROUTES:
        # the registry is edited AFTER the object was created: the object keeps the value it had (C12), and a
        # copy / pickle of it must come back with that value, not with the table's new one
        toks = [t for t in rw_tokens(unit) if t not in ("sqrt",)]
        if toks:
            t = r.choice(toks)
            base = t
            for sym in CUSTOM_SYMS:
                if t.endswith(sym):
                    base = sym
            late = {"k": "late_edit", "edit": {"k": "modify", "sym": base, "value": r.choice([7.0, 0.125, 42.0])}}
            prev = [e for e in regop.get("edits", []) if e["k"] == "add" and e["sym"] == base and e.get("offset") is not None]
            if prev and r.random() < 0.5:
                # same scale, another zero point (remove + add is how an offset is changed; add alone overwrites)
                late = {"k": "late_edit", "edit": dict(prev[-1], offset=float(prev[-1]["offset"]) + r.choice([1.5, -20.0]))}
    follows = []
    for _ in range(cfg["n_follow"]):
        f = r.choice(cfg["follow"])
        fop = {"k": "follow", "f": f, "first": r.choice(["orig", "rest"])}
        if f in ("to", "convert"):
            pool = TARGETS.get(dim, [unit])
            if not custom:
                pool = [t for t in pool if "code_" not in t] or [unit]
            fop["u"] = r.choice(pool + [unit])
        if f in ("in_base", "base_equiv"):
            fop["sys"] = r.choice(SYSTEMS)
        if f == "unit_pow":
            fop["p"] = r.choice([2, -1, 0.5, 3])
        if f == "to_equiv":
            fop["equiv"], fop["u"] = r.choice(EQUIVS)
        follows.append(fop)
    directed = {"angle": ["sin", "cos", "tan"], "log": ["mulself", "mulm", "pow2", "sqrt"],
                "temperature": ["mul2", "mulself", "addK", "subself", "diff", "divself"]}
    if follows and dim in directed and r.random() < 0.5:
        # at least one follow-up that meets the guard of the object's dimension
        follows[-1] = {"k": "follow", "f": r.choice(directed[dim]), "first": r.choice(["orig", "rest"])}
    if late is not None and follows and r.random() < 0.6:
        # the object predates the last registry edit: convert it to ITS OWN spelling (resolved against the
        # table as it is now) - the one conversion where a stale cached unit gives factor 1
        follows[0] = {"k": "follow", "f": r.choice(["to", "to", "convert"]), "first": r.choice(["orig", "rest"]), "u": unit}
    extra = []
    if r.random() < cfg.get("p_pre", 0.0):
        # warm the original's memo layers before it is persisted (string cache, lru rules)
        pool = TARGETS.get(dim, [unit])
        if not custom:
            pool = [t for t in pool if "code_" not in t] or [unit]
        extra.append({"k": "pre_follow", "f": "to", "u": r.choice(pool + [unit])})
    # (shallow-copy routes included: the two lineages then share one table by construction and the edit is made
    # once; both handles must see it - this exposed the per-handle id memo repaired in a529d71)
    if custom and route not in ("str", "repr", "savetxt") \
            and rt["chaos"] not in ("fresh_process", "new_interpreter") and r.random() < cfg.get("p_post", 0.0):
        toks = [t for t in rw_tokens(unit) if t != "sqrt"]
        if toks:
            t = r.choice(toks)
            base = t
            for sym in CUSTOM_SYMS:
                if t.endswith(sym):
                    base = sym
            pf = []
            for _ in range(2):
                f = r.choice(["to", "mul2", "mulself", "in_base", "str", "addself", "unit_roundtrip"])
                fop = {"k": "follow", "f": f, "first": r.choice(["orig", "rest"])}
                if f == "to":
                    pool = TARGETS.get(dim, [unit])
                    fop["u"] = r.choice(pool + [unit])
                if f == "in_base":
                    fop["sys"] = r.choice(SYSTEMS)
                pf.append(fop)
            extra.append({"k": "post_edit", "edit": {"k": "modify", "sym": base, "value": r.choice([5.0, 0.2, 11.0])},
                          "follows": pf, "again": route in ("pickle", "pickle_nested", "json")})
    if route != "savetxt" and rt["chaos"] not in ("fresh_process", "new_interpreter") and r.random() < cfg.get("p_decoy", 0.0):
        # the session loads something else as well: data of another registry that defines the same symbols differently
        extra.append({"k": "decoy", "when": r.choice(["before", "before", "after"]), "keep": r.random() < 0.7,
                      "route": r.choice(["pickle", "pickle", "json", "deepcopy"]), "proto": r.choice([2, 3, 4, 5]),
                      "n": r.choice([1, 1, 2, 5]), "factor": r.choice([7.0, 0.5])})
    if route != "savetxt" and rt["chaos"] not in ("fresh_process", "new_interpreter") and r.random() < cfg.get("p_gen2", 0.0):
        # a second generation: the restored object is persisted and restored once more (pickle of an unpickled
        # object, deep copy of a copy, JSON of a registry that came out of a pickle ...)
        pool = list(GEN2_ROUTES)
        if late is not None:
            pool = [x for x in pool if x in LATE_ROUTES]   # text routes carry a name, not a value
        if dtype.startswith(">"):
            pool = [x for x in pool if x in ("copy", "method_copy", "deepcopy", "deepcopy_nested", "unitcopy", "unitcopy_deep")]
        g2 = {"k": "gen2", "route": r.choice(pool)}
        if g2["route"] == "pickle":
            g2["proto"] = r.choice([2, 3, 4, 5])
        g2["chaos"] = r.choice(["none", "none", "clear_lru", "clear_sympy"])
        extra.append(g2)
        for e in extra:
            if e["k"] == "post_edit":
                e["again"] = False   # "the same bytes restored twice" is about the first generation's payload
    return [{"k": "reg", **regop}, build] + ([late] if late else []) + extra + [rt] + follows


def make_config(rng):
    r = rng
    return {
        "routes": sorted(set(r.sample(ROUTES, r.randrange(3, 9)))),
        "chaos": sorted(set(r.sample(CHAOS, r.randrange(2, 5)))),
        "follow": sorted(set(r.sample(FOLLOW, r.randrange(6, 20)))),
        "n_follow": r.choice([2, 4, 6, 10]),
        "lru": r.choice([128, 128, 128, 2, 0, 8]),
        "p_late": r.choice([0.0, 0.15, 0.4]),
        "p_pre": r.choice([0.0, 0.3]),
        "p_post": r.choice([0.0, 0.25, 0.5]),
        "p_gen2": r.choice([0.0, 0.0, 0.3, 0.6]),
        "p_decoy": r.choice([0.0, 0.2, 0.5]),
        "p_newint": 0.3 if os.environ.get("UNYTSIM_TIER") == "thorough" else 0.04,
    }


# ------------------------------------------------------------- simulation


def cold_eval(req):
    """Pristine process: restore the durable payload and run the follow-ups
    on the restored lineage only (what a new interpreter would see)."""
    unyt, uo, ur = _m()
    reg = build_registry(req["regop"]) if req.get("need_reg") else None
    Stub.ORIGINAL_IS_DEFAULT = req["regop"].get("route") == "default"
    try:
        rest_obj, rest_reg = restore(req["payload"], None, reg, None)
    except Exception as e:
        if rw.harness_frame(e.__traceback__):
            raise
        return {"restore_exc": type(e).__name__}
    me = Lineage(rest_obj, rest_reg)
    out = {"o1": o1_describe(rest_obj, rest_reg), "follows": [], "usys": rest_reg.unit_system.name}
    if req.get("orig_keys") is not None and req["payload"][0] in ("pickle", "pickle_nested", "json"):
        dl = ur.default_unit_symbol_lut
        extra = [k for k in rest_reg.lut if k not in req["orig_keys"] and k in dl and rw.entry_eq(rest_reg.lut[k], dl[k])]
        remove_filled_in(rest_reg, extra)
    for fop in req["follows"]:
        out["follows"].append(run_follow(fop, me, me))
    return out


_NEWINT = (
    "import sys, pickle; sys.path.insert(0, sys.argv[2]); "
    "from unytsim import core; core.import_unyt(); from unytsim import c11sim; "
    "req = pickle.load(open(sys.argv[1], 'rb')); "
    "sys.stdout.buffer.write(pickle.dumps(c11sim.cold_eval(req), protocol=4))"
)


def new_interpreter_eval(req):
    """The restore and the follow-ups of the restored lineage in a real new
    interpreter (exec, fresh import of unyt): validates that the pristine
    fork used for chaos=fresh_process is a faithful stand-in."""
    import pickle as _p
    import subprocess
    import sys
    import tempfile

    fd, path = tempfile.mkstemp(prefix="unytsim-c11-", suffix=".req", dir="/dev/shm")
    try:
        with os.fdopen(fd, "wb") as f:
            _p.dump(req, f, protocol=4)
        env = dict(os.environ)
        p = subprocess.run([sys.executable, "-c", _NEWINT, path, rw.VERIF_DIR], env=env, capture_output=True, timeout=100)
        if p.returncode != 0:
            return ("crash", p.stderr.decode(errors="replace")[-1500:])
        return ("ok", _p.loads(p.stdout))
    finally:
        try:
            os.unlink(path)
        except OSError:
            pass


def o1_describe(obj, reg):
    unyt, uo, ur = _m()
    stub = Stub(reg)
    d = rw.describe(obj, stub)
    d["table"] = table_plain(reg)
    return d


class Sim11:
    def __init__(self, chan, cfg):
        self.chan = chan
        self.cfg = cfg
        self.log = EventLog()
        self.violations = []
        self.stats = {"ops": {}, "skipped": 0, "exc": {}, "faults": {}, "within_tol": 0}
        self.step_no = 0
        self.scratch = None
        if cfg.get("lru", 128) != 128:
            seams.rewrap_lru(cfg["lru"])
            self.fault("lru_capacity_%s" % cfg["lru"])
        self.both = 0
        self.shape = []

    def fault(self, name):
        self.stats["faults"][name] = self.stats["faults"].get(name, 0) + 1

    def violate(self, oracle, detail, sigparts):
        self.violations.append({"oracle": oracle, "props": ["C11"], "step": self.step_no, "detail": detail,
                                "sig": "|".join([oracle] + [str(s) for s in sigparts])})

    def count(self, k):
        self.stats["ops"][k] = self.stats["ops"].get(k, 0) + 1

    def run(self, ops):
        unyt, uo, ur = _m()
        regop = next((o for o in ops if o["k"] == "reg"), {"route": "default"})
        build = next((o for o in ops if o["k"] == "build"), None)
        rt = next((o for o in ops if o["k"] == "roundtrip"), None)
        follows = [o for o in ops if o["k"] == "follow"]
        if build is None or rt is None:
            return
        self.step_no = 1
        reg = build_registry(regop)
        self.count("reg")
        custom = reg is not ur.default_unit_registry
        Stub.ORIGINAL_IS_DEFAULT = not custom
        try:
            obj = build_object(build, reg)
        except Exception as e:
            if rw.harness_frame(e.__traceback__):
                raise
            self.stats["skipped"] += 1
            self.log.add({"build_refused": type(e).__name__})
            return
        self.count("build:" + build["kind"])
        if build.get("layout"):
            self.count("layout:" + build["layout"])
        if build.get("derive"):
            self.count("derived:" + build["derive"])
        if build.get("prehash"):
            # the unit is hashed (as any memoised unit rule does) BEFORE the registry is edited further
            hash(obj if isinstance(obj, uo.Unit) else obj.units)
            self.count("prehash")
        late = next((o for o in ops if o["k"] == "late_edit"), None)
        if late is not None and custom and apply_edit(reg, late["edit"]):
            self.fault("registry_edited_after_object_creation")
        for pre in [o for o in ops if o["k"] == "pre_follow"]:
            run_follow(dict(pre, k="follow"), Lineage(obj, reg), Lineage(obj, reg))
            self.count("pre_follow")
        self.step_no = 2
        route = rt["route"]
        chaos = rt.get("chaos", "none")
        self.shape = [route, chaos, build["guard"], build["kind"], "custom" if custom else "default"]
        orig = Lineage(obj, reg)
        before = o1_describe(obj, reg)
        if route == "savetxt":
            self.do_savetxt(orig, build, rt, follows, before)
            return
        TEXT = ("str", "repr", "json", "regdeepcopy")
        if getattr(obj.units if hasattr(obj, "units") else obj, "expr", None) == 1:
            # the unit of a ratio: its expression is `1`, its NAME is "dimensionless", and that name denotes the symbol
            # of that name - an equal unit in another representation.  Routes that carry the name cannot carry the
            # representation, by construction of str(); counted, not judged (the in-memory and pickle routes are judged)
            if route in TEXT:
                self.count("text_route_unit_of_ratio_not_judged")
                return
            ops = [o for o in ops if not (o["k"] == "gen2" and o["route"] in TEXT)]
        # ---- dump
        try:
            payload = persist(obj, reg, rt, None)
        except Exception as e:
            if rw.harness_frame(e.__traceback__):
                raise
            # a refusal to write is not a wrong read; the object must be untouched
            self.stats["exc"][type(e).__name__] = self.stats["exc"].get(type(e).__name__, 0) + 1
            after = o1_describe(obj, reg)
            if rw.compare(before, after):
                self.violate("O1-refused-dump-changed-object", {"route": rt, "before": before, "after": after}, [route])
            self.log.add({"dump_refused": type(e).__name__})
            self.count("dump_refused")
            return
        self.count("dump:" + route)
        # ---- the original lineage's outcomes are needed before a restart
        orig_out = {}
        if chaos in ("restart", "fresh_process", "new_interpreter"):
            for i, fop in enumerate(follows):
                orig_out[i] = run_follow(fop, orig, orig)
        # ---- volatile-state fault between dump and load
        if chaos == "clear_lru":
            seams.clear_lru()
        elif chaos == "clear_sympy":
            seams.clear_sympy_cache()
        elif chaos == "restart":
            seams.clear_lru()
            seams.clear_sympy_cache()
            if custom:
                reg._unit_object_cache.clear()
        self.fault("chaos_" + chaos)
        self.step_no = 3
        if chaos in ("fresh_process", "new_interpreter"):
            req = {"payload": payload, "regop": regop, "need_reg": route in ("str", "repr"), "follows": follows,
                   "orig_keys": sorted(reg.lut)}
            if chaos == "new_interpreter":
                tag, res = new_interpreter_eval(req)
            else:
                tag, res = self.chan.cold(req)
            if tag != "ok":
                raise HarnessError(f"fresh-process restore failed: {tag} {res}")
            if "restore_exc" in res:
                self.violate("O1-restore-raised", {"route": rt, "build": build, "exception": res["restore_exc"],
                                                   "where": "pristine process"}, [route, res["restore_exc"]])
                return
            self.usys_names = (reg.unit_system.name, res["usys"])
            self.check_o1(before, res["o1"], rt, build)
            for i, fop in enumerate(follows):
                self.step_no = 4 + i
                self.check_o2(fop, orig_out[i], res["follows"][i], chaos)
            self.log.add({"o1": res["o1"], "follows": res["follows"], "orig": orig_out})
            return
        decoy = next((o for o in ops if o["k"] == "decoy"), None)
        kept = []
        if decoy is not None and decoy.get("when") == "before":
            kept.append(self.load_decoy(regop, decoy))
        try:
            robj, rreg = restore(payload, obj, reg, None)
        except Exception as e:
            if rw.harness_frame(e.__traceback__):
                raise
            self.violate("O1-restore-raised", {"route": rt, "build": build, "exception": type(e).__name__}, [route, type(e).__name__])
            return
        if decoy is not None and decoy.get("when") != "before":
            kept.append(self.load_decoy(regop, decoy))
        self._kept = kept  # what the session still holds on to
        rest = Lineage(robj, rreg)
        self.usys_names = (reg.unit_system.name, rreg.unit_system.name)
        after = o1_describe(robj, rreg)
        same = self.check_o1(before, after, rt, build)
        self.check_identity_and_hash(obj, reg, robj, rreg, route, same)
        if getattr(self, "filled_in", None):
            # the fill-in is reported once (O1); the follow-ups then compare
            # behaviour under equal contents
            remove_filled_in(rreg, self.filled_in)
        # the original must not have been changed by being persisted
        again = o1_describe(obj, reg)
        if rw.compare(before, again):
            self.violate("O1-persisting-changed-original", {"route": rt, "differs": rw.compare(before, again)}, [route])
        probe_identity(self, obj, robj)
        tw = getattr(restore, "twin", None) if route == "deepcopy_nested" else None
        if tw is not None:
            self.count("deepcopy_container_with_twin_registry")
            if tw["same_registry"] or tw["usys"][0] != tw["usys"][1] or tw["usys"][2] != tw["usys"][3]:
                self.violate("O1-deepcopy-container-couples-registries",
                             {"route": rt, "twin": tw,
                              "note": "two objects of two content-equal registries with different unit systems deep-copied "
                                      "in one container: each copy must keep a registry of its own with its own unit system"},
                             [route, "same" if tw["same_registry"] else "unit-system"])
            restore.twin = None
        gen2 = next((o for o in ops if o["k"] == "gen2"), None)
        if gen2 is not None:
            # ---- second generation: persist the RESTORED object again, restore that; O1 against the original
            g2rt = dict(gen2, k="roundtrip")
            try:
                payload2 = persist(robj, rreg, g2rt, None)
                if gen2.get("chaos") == "clear_lru":
                    seams.clear_lru()
                elif gen2.get("chaos") == "clear_sympy":
                    seams.clear_sympy_cache()
                robj2, rreg2 = restore(payload2, robj, rreg, None)
            except Exception as e:
                if rw.harness_frame(e.__traceback__):
                    raise
                self.violate("O1-restore-raised", {"route": rt, "second_generation": gen2, "build": build,
                                                   "exception": type(e).__name__},
                             [route + ">" + gen2["route"], type(e).__name__])
                return
            self.fault("second_generation_" + gen2["route"])
            self.shape = self.shape + ["gen2:" + gen2["route"]]
            first_filled = getattr(self, "filled_in", None)
            self.filled_in = None
            after2 = o1_describe(robj2, rreg2)
            same2 = self.check_o1(before, after2, g2rt, build, label=route + ">" + gen2["route"])
            self.check_identity_and_hash(obj, reg, robj2, rreg2, route + ">" + gen2["route"], same2)
            if getattr(self, "filled_in", None):
                remove_filled_in(rreg2, self.filled_in)
            self.filled_in = (self.filled_in or set()) | (first_filled or set()) or None
            # the first generation must not have been changed by being persisted again
            mid = o1_describe(robj, rreg)
            dmid = [d for d in rw.compare({k: v for k, v in after.items() if k != "table"},
                                          {k: v for k, v in mid.items() if k != "table"})]
            if dmid:
                self.violate("O1-persisting-changed-original", {"route": gen2, "generation": 2, "differs": dmid[:8]},
                             [route + ">" + gen2["route"]])
            robj, rreg, after = robj2, rreg2, after2
            rest = Lineage(robj, rreg)
            self.usys_names = (reg.unit_system.name, rreg.unit_system.name)
        outs = []
        for i, fop in enumerate(follows):
            self.step_no = 4 + i
            if chaos == "restart":
                o = orig_out[i]
                rr = run_follow(fop, rest, rest)
            elif fop.get("first") == "rest":
                rr = run_follow(fop, rest, orig)
                o = run_follow(fop, orig, rest)
            else:
                o = run_follow(fop, orig, rest)
                rr = run_follow(fop, rest, orig)
            outs.append([o, rr])
            self.check_o2(fop, o, rr, chaos)
        post = next((o for o in ops if o["k"] == "post_edit"), None)
        if post is not None and custom and rreg is not ur.default_unit_registry:
            # the same edit through each lineage's own registry (one call if they share the table by
            # construction, as after a shallow copy), then more follow-ups
            ok = apply_edit(reg, post["edit"])
            if rreg.lut is not reg.lut:
                ok = apply_edit(rreg, post["edit"]) and ok
            sib = getattr(restore, "sibling", None) if route == "pickle_nested" and gen2 is None else None
            if ok and sib is not None and sib.units.registry is not rreg:
                # the sibling restored from the same payload has a registry of its own: the edit made through
                # the first restored object's registry must not show in it
                sib_table = table_plain(sib.units.registry)
                want = {k: v for k, v in after["table"].items()}
                if sib_table != want and not getattr(self, "filled_in", None):
                    changed = sorted(k for k in set(sib_table) | set(want) if sib_table.get(k) != want.get(k))[:6]
                    self.violate("O1-sibling-registry-changed",
                                 {"route": rt, "changed": changed,
                                  "note": "two arrays of one registry restored from one payload: editing the "
                                          "registry of one changed the registry contents of the other"},
                                 [route, "table"])
            if ok:
                self.fault("registries_edited_after_restore")
                for j, fop in enumerate(post.get("follows", [])):
                    self.step_no = 4 + len(follows) + j
                    if fop.get("first") == "rest":
                        rr = run_follow(fop, rest, orig)
                        o = run_follow(fop, orig, rest)
                    else:
                        o = run_follow(fop, orig, rest)
                        rr = run_follow(fop, rest, orig)
                    outs.append([o, rr])
                    self.check_o2(fop, o, rr, chaos + "+post_edit")
                if post.get("again") and route in ("pickle", "pickle_nested", "json"):
                    # the durable bytes have not changed: a second restore must give what the first one gave
                    try:
                        robj2, rreg2 = restore(payload, obj, reg, None)
                        again2 = o1_describe(robj2, rreg2)
                        d2 = rw.compare(after, again2)
                    except Exception as e:
                        if rw.harness_frame(e.__traceback__):
                            raise
                        d2 = ["raised:" + type(e).__name__]
                    self.count("second_restore")
                    if d2:
                        self.violate("O1-second-restore-differs",
                                     {"route": rt, "differs": d2[:10],
                                      "note": "same bytes restored twice in one process, the first restored registry "
                                              "edited in between"}, [route, ",".join(sorted(set(x.split(".")[-1] for x in d2)))[:60]])
        self.log.add({"o1": after, "follows": outs})

    def load_decoy(self, regop, decoy):
        """Something else the session loads (and, if `keep`, holds on to): an array of ANOTHER registry that defines
        the same custom symbols differently, through the same kind of route."""
        unyt, uo, ur = _m()
        op2 = json.loads(json.dumps(regop))
        for e in op2.get("edits", []):
            if e["k"] == "add" and isinstance(e.get("scale"), float):
                e["scale"] = e["scale"] * decoy.get("factor", 7.0)
        if op2.get("route") in (None, "default"):
            op2 = {"route": "plain", "edits": [{"k": "add", "sym": "code_length", "scale": 11.0, "dims": "length", "prefixable": True}]}
        reg2 = build_registry(op2)
        names = [e["sym"] for e in op2.get("edits", []) if e["k"] == "add"]
        a = unyt.unyt_array(np.array([1.0, 2.0]), names[0] if names and names[0] in reg2.lut else "m", registry=reg2)
        out = []
        for _ in range(decoy.get("n", 1)):
            if decoy.get("route") == "json":
                r2 = ur.UnitRegistry.from_json(reg2.to_json())
                out.append(unyt.unyt_array(np.array([1.0, 2.0]), str(a.units), registry=r2))
            elif decoy.get("route") == "deepcopy":
                out.append(copy.deepcopy(a))
            else:
                out.append(pickle.loads(pickle.dumps(a, protocol=decoy.get("proto", 4))))
        self.fault("decoy_load_" + decoy.get("route", "pickle"))
        return out if decoy.get("keep", True) else None

    def check_identity_and_hash(self, obj, reg, robj, rreg, label, same):
        unyt, uo, ur = _m()
        if reg is not ur.default_unit_registry and rreg is ur.default_unit_registry:
            # the original lived in a private registry; edits of "its" registry after the restore would go to (or be
            # refused by) the library-wide default registry
            self.violate("O1-restored-into-default-registry", {"route": label}, [label])
        if same:
            uo_, ur_ = (obj if isinstance(obj, uo.Unit) else obj.units), (robj if isinstance(robj, uo.Unit) else robj.units)
            try:
                eq, ho, hr = (uo_ == ur_), hash(uo_), hash(ur_)
            except Exception as e:
                if rw.harness_frame(e.__traceback__):
                    raise
                return
            self.count("o1_hash")
            if eq and ho != hr:
                # equal units of registries with equal contents: sets and dicts keyed by one must find the other
                self.violate("O1-equal-units-hash-differently", {"route": label, "unit": str(uo_)}, [label])

    def check_o1(self, before, after, rt, build, label=None):
        b = {k: v for k, v in before.items() if k != "table"}
        a = {k: v for k, v in after.items() if k != "table"}
        # the registry a restored object lives in is its own: compare contents, not identity
        diffs = [d for d in rw.compare(b, a) if not d.endswith(".node")]
        self.count("o1")
        if diffs:
            self.violate("O1-object", {"route": rt, "build": build, "differs": diffs, "before": b, "after": a},
                         [label or rt["route"], ",".join(sorted(set(d.split(".")[-1] for d in diffs)))])
        tb, ta = before["table"], after["table"]
        kinds = {}
        for k in sorted(set(tb) | set(ta)):
            if k not in ta:
                kinds.setdefault("missing", []).append(k)
            elif k not in tb:
                kinds.setdefault("extra", []).append(k)
            elif tb[k] != ta[k]:
                kinds.setdefault("changed", []).append(k)
        if kinds:
            unyt, uo, ur = _m()
            dl = ur.default_unit_symbol_lut
            route = rt["route"]
            filled = (
                route in ("pickle", "pickle_nested", "json") and set(kinds) == {"extra"}
                and all(k in dl and ta[k] == rw.entry_plain(dl[k]) for k in kinds["extra"])
            )
            if filled:
                # the documented fill-in of default symbols that the persisted table lacks
                self.filled_in = set(kinds["extra"])
                sig = ["persisted-table", "defaults-filled-in"]
            else:
                sig = [label or route, ",".join(sorted(kinds))]
            self.violate("O1-registry-contents",
                         {"route": rt, "differences": {k: v[:8] for k, v in kinds.items()},
                          "note": "restored registry does not hold the contents of the original at dump time"}, sig)
        return not diffs and not kinds

    def check_o2(self, fop, o, rr, chaos):
        f = fop["f"]
        self.count("follow:" + f)
        if "exc" in o:
            self.stats["exc"][o["exc"]] = self.stats["exc"].get(o["exc"], 0) + 1
        self.both += 1
        tstats = {}
        if f == "same_dims" and getattr(self, "filled_in", None) and "ok" in rr:
            # names that exist only because of the (separately reported) fill-in
            rr = {"ok": {"k": "seq", "items": [i for i in rr["ok"]["items"] if i.get("v") not in self.filled_in]}}
        diffs = [d for d in rw.compare(o, rr, stats=tstats)]
        if f == "to_other_units":
            # the target is the other lineage's unit OBJECT: the result lives in the other lineage's registry on both
            # sides, which the per-lineage labels (own / default / other) cannot express
            diffs = [d for d in diffs if not d.endswith(".node")]
        if diffs and all(d.endswith((".dtype", ".data")) for d in diffs):
            # Same numbers at the narrower precision but another float width:
            # whether a conversion of float32 data returns float32 or float64
            # depends on whether the table scale is a Python float or a
            # numpy.float64 (copies and JSON normalise it to float).  That is
            # C17's subject (dtype x route); counted here, not reported.
            if width_only(o, rr):
                self.stats["faults"]["probe_float_width_differs_between_lineages"] = \
                    self.stats["faults"].get("probe_float_width_differs_between_lineages", 0) + 1
                diffs = []
        self.stats["within_tol"] += tstats.get("within_tol", 0)
        if diffs:
            fields = sorted(set(d.split(".")[-1].split(":")[-1] for d in diffs))
            routes_used = {self.shape[0]} | {x[5:] for x in self.shape if str(x).startswith("gen2:")}
            if (f in ("in_base", "base_equiv") and fop.get("sys") is None and routes_used & {"pickle", "pickle_nested", "json"}
                    and getattr(self, "usys_names", None) and self.usys_names[0] != self.usys_names[1]):
                self.violate("O2-follow-up-differs",
                             {"follow_up": fop, "original": o, "restored": rr, "differs": diffs, "chaos": chaos,
                              "unit_system_original": self.usys_names[0], "unit_system_restored": self.usys_names[1],
                              "note": "the pickle / JSON formats do not carry the registry's unit system"},
                             ["persisted-table", "unit-system-not-persisted"])
                return
            g2 = [x[5:] for x in self.shape if str(x).startswith("gen2:")]
            self.violate("O2-follow-up-differs",
                         {"follow_up": fop, "original": o, "restored": rr, "differs": diffs, "chaos": chaos,
                          "shape": self.shape},
                         [self.shape[0] + (">" + g2[0] if g2 else ""), f, ",".join(fields)])

    # ---- savetxt / loadtxt with I/O faults
    def do_savetxt(self, orig, build, rt, follows, before):
        unyt, uo, ur = _m()
        x = orig.obj
        if x.units.registry is not ur.default_unit_registry:
            # loadtxt has no registry argument: only default-registry data can round-trip by construction
            self.stats["skipped"] += 1
            return
        ncols = rt.get("ncols", 1)
        n = int(np.asarray(x.d).size)
        # further columns carry OTHER units, so that a unit attached to the wrong column shows
        extra = [unyt.unyt_array(np.arange(n, dtype="float64") + 1.0, "s" if str(x.units.dimensions) != "(time)" else "g"),
                 unyt.unyt_array(np.arange(n, dtype="float64") * 0.5 + 2.0, "km/s")]
        cols = [x] + extra[: max(0, ncols - 1)]
        usecols = rt.get("usecols")
        if usecols is not None and (ncols == 1 or any(c >= ncols for c in usecols)):
            usecols = None
        cols_before = [rw.describe(c, Stub(orig.reg)) for c in cols]
        save_kw, load_kw = {}, {}
        if rt.get("footer"):
            save_kw["footer"] = rt["footer"]
        if rt.get("delimiter"):
            save_kw["delimiter"] = rt["delimiter"]
            load_kw["delimiter"] = rt["delimiter"]
        limit = rt.get("io_fault")
        fw = FaultyWriter(limit)
        raised = None
        try:
            unyt.savetxt(fw, cols if len(cols) > 1 else cols[0], header="hdr", **save_kw)
        except OSError as e:
            raised = e
        except Exception as e:
            if rw.harness_frame(e.__traceback__):
                raise
            raised = e
        self.count("savetxt")
        if fw.fired:
            self.fault("savetxt_ENOSPC")
        cols_after = [rw.describe(c, Stub(orig.reg)) for c in cols]
        if rw.compare(cols_before, cols_after):
            self.violate("O3-savetxt-changed-input", {"route": rt}, ["savetxt"])
        text = fw.getvalue()
        if raised is not None:
            if not fw.fired:
                self.violate("O3-savetxt-raised-without-fault", {"exception": type(raised).__name__, "build": build}, ["savetxt", type(raised).__name__])
                return
            # faults stop: a retry must succeed (progress within one step)
            fw = FaultyWriter(None)
            try:
                unyt.savetxt(fw, cols if len(cols) > 1 else cols[0], header="hdr", **save_kw)
            except Exception as e:
                if rw.harness_frame(e.__traceback__):
                    raise
                self.violate("O3-savetxt-retry-failed", {"exception": type(e).__name__}, ["savetxt", type(e).__name__])
                return
            self.count("savetxt_retry")
            text = fw.getvalue()
        self.scratch = "/dev/shm/unytsim-%d" % os.getpid()
        os.makedirs(self.scratch, exist_ok=True)
        path = os.path.join(self.scratch, "data.txt")
        try:
            with open(path, "w") as f:
                f.write(text)
            if rt.get("chaos") in ("clear_lru", "restart"):
                seams.clear_lru()
            if rt.get("chaos") in ("clear_sympy", "restart"):
                seams.clear_sympy_cache()
            self.fault("chaos_" + rt.get("chaos", "none"))
            try:
                with warnings.catch_warnings():
                    warnings.simplefilter("ignore")
                    dt = "complex" if build["dtype"].startswith("complex") else "float"
                    if usecols is not None:
                        loaded = unyt.loadtxt(path, dtype=dt, usecols=tuple(usecols), **load_kw)
                        self.fault("loadtxt_usecols")
                    else:
                        loaded = unyt.loadtxt(path, dtype=dt, **load_kw)
            except Exception as e:
                if rw.harness_frame(e.__traceback__):
                    raise
                self.violate("O3-loadtxt-raised", {"exception": type(e).__name__, "build": build, "text": text[:300]},
                             ["savetxt", type(e).__name__])
                return
        finally:
            shutil.rmtree(self.scratch, ignore_errors=True)
        if not isinstance(loaded, tuple):
            loaded = (loaded,)
        self.count("loadtxt")
        if usecols is not None:
            cols = [cols[c] for c in usecols]
        if len(loaded) != len(cols):
            self.violate("O3-loadtxt-columns", {"wrote": len(cols), "read": len(loaded)}, ["savetxt", "columns"])
            return
        rest = None
        for c, l2 in zip(cols, loaded):
            want = rw.describe(unyt.unyt_array(np.asarray(c.d, dtype="float64"), c.units), Stub(orig.reg))
            got = rw.describe(l2, Stub(l2.units.registry))
            diffs = [d for d in rw.compare(want, got) if not d.endswith(".node") and not d.endswith(".cls")]
            if diffs:
                self.violate("O1-object", {"route": rt, "build": build, "differs": diffs, "before": want, "after": got},
                             ["savetxt", ",".join(sorted(set(d.split(".")[-1] for d in diffs)))])
                return
            rest = rest or Lineage(l2, l2.units.registry)
        self.count("o1")
        o_lin = Lineage(unyt.unyt_array(np.asarray(cols[0].d, dtype="float64"), cols[0].units), orig.reg)
        # (cols[0] is the written column that corresponds to the first loaded one, also under usecols)
        for i, fop in enumerate(follows):
            self.step_no = 4 + i
            if fop.get("first") == "rest":
                rr = run_follow(fop, rest, o_lin)
                o = run_follow(fop, o_lin, rest)
            else:
                o = run_follow(fop, o_lin, rest)
                rr = run_follow(fop, rest, o_lin)
            self.check_o2(fop, o, rr, rt.get("chaos"))


def remove_filled_in(reg, names):
    for k in sorted(names):
        try:
            reg.remove(k)
        except Exception:  # noqa: BLE001 - best effort; any remaining difference is reported by O2
            pass


def width_only(a, b):
    """True if two outcome descriptions differ only in float width, with
    numbers equal at the narrower width."""
    if type(a) is not type(b):
        return False
    if isinstance(a, dict):
        if set(a) != set(b):
            return False
        if "dtype" in a and "data" in a and isinstance(a["data"], list):
            da, db = a["dtype"], b["dtype"]
            if da != db:
                fl = ("float16", "float32", "float64", "complex64", "complex128")
                if da not in fl or db not in fl or (da.startswith("complex") != db.startswith("complex")):
                    return False
            narrow = min((da, db), key=lambda d: rw._EPS.get(d, 1.0) * -1)
            if len(a["data"]) != len(b["data"]) or not all(rw.close(x, y, narrow) for x, y in zip(a["data"], b["data"])):
                return False
            return all(width_only(a[k], b[k]) for k in a if k not in ("dtype", "data"))
        return all(width_only(a[k], b[k]) for k in a)
    if isinstance(a, list):
        return len(a) == len(b) and all(width_only(x, y) for x, y in zip(a, b))
    if isinstance(a, float):
        return rw.close(a, b)
    return a == b


def probe_identity(sim, obj, robj):
    """Rare-condition probe: restored dimension object equal but not identical."""
    try:
        if robj.units.dimensions is not obj.units.dimensions and robj.units.dimensions == obj.units.dimensions:
            sim.fault("probe_restored_dimensions_equal_not_identical")
    except Exception:
        pass


def simulate(chan, spec):
    rng = make_rng(spec["seed"], "C11", spec["run"])
    cfg = spec.get("cfg") or make_config(rng)
    ops = spec.get("ops")
    if ops is None:
        ops = gen_run(rng, cfg)
    sim = Sim11(chan, cfg)
    try:
        sim.run(ops)
    finally:
        if sim.scratch:
            shutil.rmtree(sim.scratch, ignore_errors=True)
    guard = sim.shape[2] if len(sim.shape) > 2 else "plain"
    nontrivial = bool(sim.shape) and (guard != "plain" or sim.shape[4] == "custom") and sim.both >= 1
    fk = sorted(set(o["f"] for o in ops if o["k"] == "follow"))
    sim.stats["faults"] = dict(sorted(sim.stats["faults"].items()))
    return {
        "prop": "C11", "seed": spec["seed"], "run": spec["run"], "cfg": cfg, "ops": ops,
        "violations": sim.violations, "other_violations": [], "digest": sim.log.hexdigest(),
        "steps": sim.step_no, "stats": sim.stats, "probes": {},
        "shape": "|".join(sim.shape + [",".join(fk)]), "nontrivial": nontrivial,
        "cold_calls": chan.cold_calls if chan else 0,
        "extra": {"follow_ups_on_both_lineages": sim.both},
        # abstract state reached: route x fault x unit class x object kind x registry kind x which edits happened
        "abstract_state": "|".join(sim.shape + ["late" if any(o["k"] == "late_edit" for o in ops) else "",
                                                "post" if any(o["k"] == "post_edit" for o in ops) else ""]) if sim.shape else None,
    }
