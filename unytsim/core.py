"""Supervisor / fork-per-run machinery, channels, PRNG, digests.

One simulated run = one forked child of a *pristine* supervisor process (one
that has imported unyt and the harness but never executed a unyt operation).
While the run child executes, the supervisor answers "cold" requests from it
by forking a second pristine child which evaluates exactly one call in a
history-free world (the cold twin of DESIGN.md 3.1) and returns the outcome.

Nothing here draws random numbers or reads a clock for a decision; wall-clock
is read only for time limits (which turn into harness errors, never into
verdicts) and for the throughput figures of the evidence file.
"""

import hashlib
import json
import os
import pickle
import random
import select
import signal
import struct
import sys
import time
import traceback


class HarnessError(Exception):
    """A failure of the machinery itself (never a property violation)."""


# ---------------------------------------------------------------- channels


def _write_all(fd, data):
    view = memoryview(data)
    while view:
        n = os.write(fd, view)
        view = view[n:]


def send_msg(fd, obj):
    data = pickle.dumps(obj, protocol=4)
    _write_all(fd, struct.pack("<I", len(data)) + data)


def _read_exact(fd, n, deadline):
    chunks = []
    while n > 0:
        if deadline is not None:
            left = deadline - time.monotonic()
            if left <= 0:
                raise TimeoutError
            r, _, _ = select.select([fd], [], [], left)
            if not r:
                raise TimeoutError
        chunk = os.read(fd, min(n, 1 << 20))
        if not chunk:
            raise EOFError
        chunks.append(chunk)
        n -= len(chunk)
    return b"".join(chunks)


def recv_msg(fd, deadline=None):
    (n,) = struct.unpack("<I", _read_exact(fd, 4, deadline))
    return pickle.loads(_read_exact(fd, n, deadline))


class Channel:
    """The run child's end: results go up, cold-twin answers come down."""

    def __init__(self, wfd, rfd):
        self.wfd = wfd
        self.rfd = rfd
        self.cold_calls = 0

    def cold(self, request):
        self.cold_calls += 1
        send_msg(self.wfd, ("cold", request))
        tag, payload = recv_msg(self.rfd)
        if tag != "cold_reply":
            raise HarnessError(f"unexpected reply {tag}")
        return payload


# ------------------------------------------------------------ fork helpers


def _kill(pid):
    try:
        os.kill(pid, signal.SIGKILL)
    except ProcessLookupError:
        pass
    try:
        os.waitpid(pid, 0)
    except ChildProcessError:
        pass


def _limit_memory():
    """In a forked child: a runaway allocation (unit ** 16777219 makes sympy ask for tens of gigabytes) must
    end as a MemoryError inside that child - an outcome like any other exception - not as the kernel's OOM
    killer taking out whichever process it likes."""
    try:
        import resource

        cap = 8 << 30
        soft, hard = resource.getrlimit(resource.RLIMIT_AS)
        if hard != resource.RLIM_INFINITY:
            cap = min(cap, hard)
        resource.setrlimit(resource.RLIMIT_AS, (cap, hard))
    except Exception:
        pass


def fork_eval(fn, args, timeout):
    """Run fn(*args) in a forked child, return its (picklable) result.

    Used for the cold twin: the caller is pristine, so is the child.
    Returns ("ok", result) | ("crash", text) | ("timeout", None).
    """
    r, w = os.pipe()
    sys.stdout.flush()
    sys.stderr.flush()
    pid = os.fork()
    if pid == 0:
        code = 0
        try:
            os.close(r)
            _limit_memory()
            try:
                res = ("ok", fn(*args))
            except BaseException:
                res = ("crash", traceback.format_exc())
            send_msg(w, res)
        except BaseException:
            code = 3
        finally:
            os._exit(code)
    os.close(w)
    try:
        try:
            res = recv_msg(r, time.monotonic() + timeout)
        except TimeoutError:
            _kill(pid)
            return ("timeout", None)
        except EOFError:
            _kill(pid)
            return ("crash", "child died without a result")
    finally:
        os.close(r)
    try:
        os.waitpid(pid, 0)
    except ChildProcessError:
        pass
    return res


_LINE_CACHE = {}


def start_raise_monitor():
    """Reach probe: which source lines of unyt raised an exception during this
    run (sys.monitoring RAISE events fire at the origin only; the evidence
    writer intersects them with the `raise` statements found by ast).  Draws
    nothing from the PRNG, decides nothing."""
    sites = set()
    mon = getattr(sys, "monitoring", None)
    if mon is None:
        return sites
    root = os.path.join(os.path.realpath(unyt_src()), "unyt") + os.sep
    tool = 4
    try:
        mon.use_tool_id(tool, "unytsim-raise-sites")
    except ValueError:
        return sites

    def on_raise(code, offset, exc):
        fn = code.co_filename
        if not fn.startswith(root) or "/tests/" in fn:
            return
        key = (code, offset)
        line = _LINE_CACHE.get(key)
        if line is None:
            line = code.co_firstlineno
            for start, end, ln in code.co_lines():
                if start <= offset < end and ln is not None:
                    line = ln
                    break
            _LINE_CACHE[key] = line
        sites.add((fn[len(root):], line))

    mon.register_callback(tool, mon.events.RAISE, on_raise)
    mon.set_events(tool, mon.events.RAISE)
    return sites


def run_child(fn, args, timeout, cold_fn=None, cold_timeout=30.0):
    """Fork a run child executing fn(channel, *args).

    While it runs, serve its ("cold", request) messages by evaluating
    cold_fn(request) in a further pristine fork.  Returns
    ("ok", result) | ("crash", text) | ("timeout", None).
    """
    up_r, up_w = os.pipe()
    down_r, down_w = os.pipe()
    sys.stdout.flush()
    sys.stderr.flush()
    pid = os.fork()
    if pid == 0:
        code = 0
        try:
            os.close(up_r)
            os.close(down_w)
            _limit_memory()
            chan = Channel(up_w, down_r)
            try:
                sites = start_raise_monitor()
                out = fn(chan, *args)
                if isinstance(out, dict):
                    out["raise_sites"] = sorted(sites)
                res = ("done", ("ok", out))
            except BaseException:
                res = ("done", ("crash", traceback.format_exc()))
            send_msg(up_w, res)
        except BaseException:
            code = 3
        finally:
            os._exit(code)
    os.close(up_w)
    os.close(down_r)
    deadline = time.monotonic() + timeout
    try:
        while True:
            try:
                tag, payload = recv_msg(up_r, deadline)
            except TimeoutError:
                _kill(pid)
                return ("timeout", None)
            except EOFError:
                _kill(pid)
                return ("crash", "run child died without a result")
            if tag == "cold":
                if cold_fn is None:
                    reply = ("crash", "no cold service")
                else:
                    reply = fork_eval(cold_fn, (payload,), cold_timeout)
                try:
                    send_msg(down_w, ("cold_reply", reply))
                except BrokenPipeError:
                    _kill(pid)
                    return ("crash", "run child closed its pipe")
            elif tag == "done":
                try:
                    os.waitpid(pid, 0)
                except ChildProcessError:
                    pass
                return payload
            else:
                _kill(pid)
                return ("crash", f"unknown message {tag!r}")
    finally:
        os.close(up_r)
        os.close(down_w)


# ------------------------------------------------------------------ PRNG


def make_rng(seed, prop, run):
    # str seeding goes through sha512: independent of PYTHONHASHSEED
    return random.Random(f"{seed}:{prop}:{run}")


def wchoice(rng, weighted):
    """weighted: list of (item, weight); deterministic order = list order."""
    total = 0.0
    for _, w in weighted:
        total += w
    x = rng.random() * total
    acc = 0.0
    for item, w in weighted:
        acc += w
        if x < acc:
            return item
    return weighted[-1][0]


# --------------------------------------------------------------- digests


def canon(obj):
    """Deterministic text of a plain-data object (floats by repr)."""
    return json.dumps(obj, sort_keys=True, default=_canon_default, allow_nan=True)


def _canon_default(o):
    if isinstance(o, bytes):
        return "b:" + o.hex()
    if isinstance(o, complex):
        return f"c:{o.real!r}:{o.imag!r}"
    if isinstance(o, (set, frozenset)):
        return sorted(o)
    return repr(o)


def digest(obj):
    return hashlib.sha256(canon(obj).encode()).hexdigest()[:16]


class EventLog:
    def __init__(self):
        self.h = hashlib.sha256()
        self.n = 0

    def add(self, rec):
        self.h.update(canon(rec).encode())
        self.h.update(b"\n")
        self.n += 1

    def hexdigest(self):
        return self.h.hexdigest()[:20]


# ------------------------------------------------------------ environment


def ensure_env():
    """Re-exec once with a fixed hash seed and single-threaded BLAS."""
    want = {
        "PYTHONHASHSEED": os.environ.get("UNYTSIM_HASHSEED", "0"),
        "OPENBLAS_NUM_THREADS": "1",
        "OMP_NUM_THREADS": "1",
        "MKL_NUM_THREADS": "1",
    }
    if all(os.environ.get(k) == v for k, v in want.items()):
        return
    if os.environ.get("UNYTSIM_REEXEC") == "1":
        raise HarnessError("environment not as requested after re-exec")
    env = dict(os.environ)
    env.update(want)
    env["UNYTSIM_REEXEC"] = "1"
    os.execve(sys.executable, [sys.executable] + sys.argv, env)


def unyt_src():
    return os.environ.get("UNYT_SRC", "/repo")


def import_unyt():
    """Import unyt from UNYT_SRC (default /repo) and assert that it is that."""
    src = os.path.realpath(unyt_src())
    if sys.path[0] != src:
        sys.path.insert(0, src)
    import unyt

    got = os.path.realpath(os.path.dirname(os.path.dirname(unyt.__file__)))
    if got != src:
        raise HarnessError(f"unyt imported from {got}, expected {src}")
    return unyt
