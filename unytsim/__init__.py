"""Deterministic simulation harness for yt-project/unyt (see /verif/DESIGN.md)."""
