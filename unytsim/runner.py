"""Batch execution: specs -> results, on a pool of pristine supervisors."""

import concurrent.futures as cf
import multiprocessing
import os
import time

from . import core


def _target(prop):
    if prop in ("C12", "C13"):
        from . import regsim, regworld

        return regsim.simulate, regworld.cold_eval
    if prop == "C18":
        from . import c18sim

        return c18sim.simulate, c18sim.cold_eval
    if prop == "C11":
        from . import c11sim

        return c11sim.simulate, c11sim.cold_eval
    raise core.HarnessError(f"no simulator for {prop}")


def run_one(spec, timeout=120.0):
    """Executed in a supervisor: fork one pristine run child."""
    fn, cold_fn = _target(spec["prop"])
    tag, payload = core.run_child(fn, (spec,), timeout, cold_fn=cold_fn)
    if tag == "timeout":
        # a run is a pure function of its spec: on a saturated machine the wall limit may hit a healthy run, so
        # it is executed once more with a longer limit before the time-out is declared a harness error
        tag, payload = core.run_child(fn, (spec,), timeout * 4, cold_fn=cold_fn, cold_timeout=120.0)
    if tag == "ok":
        return payload
    return {"harness_error": f"{tag}: {payload}", "seed": spec["seed"], "run": spec["run"], "prop": spec["prop"]}


def _init_worker():
    core.import_unyt()
    import faulthandler

    faulthandler.enable()


_POOLS = {}


def get_pool(workers):
    if workers not in _POOLS:
        ctx = multiprocessing.get_context("fork")
        _POOLS[workers] = cf.ProcessPoolExecutor(max_workers=workers, mp_context=ctx, initializer=_init_worker)
    return _POOLS[workers]


def shutdown_pools():
    for p in _POOLS.values():
        p.shutdown(wait=False, cancel_futures=True)
    _POOLS.clear()


def map_specs(specs, timeout=120.0, workers=None):
    """Run all specs, return results in order."""
    res, _ = run_batch(specs, workers=workers, timeout=timeout)
    return [res[i] for i in range(len(specs))]


def run_batch(specs, workers=None, timeout=120.0, budget_s=None, on_result=None):
    """Run specs on `workers` supervisors; stop submitting once budget_s
    has passed.  Yields results in completion order via on_result and
    returns (results in spec order where available, n_not_run)."""
    workers = workers or min(16, os.cpu_count() or 1)
    results = {}
    t0 = time.monotonic()
    not_run = 0
    ex = get_pool(workers)
    if True:
        it = iter(enumerate(specs))
        pending = {}
        exhausted = False

        def submit_more():
            nonlocal exhausted, not_run
            while not exhausted and len(pending) < workers * 3:
                if budget_s is not None and time.monotonic() - t0 > budget_s:
                    exhausted = True
                    not_run = sum(1 for _ in it)
                    break
                try:
                    i, spec = next(it)
                except StopIteration:
                    exhausted = True
                    break
                pending[ex.submit(run_one, spec, timeout)] = i

        submit_more()
        while pending:
            done, _ = cf.wait(list(pending), return_when=cf.FIRST_COMPLETED)
            for fut in done:
                i = pending.pop(fut)
                try:
                    res = fut.result()
                except Exception as e:  # worker died
                    res = {"harness_error": f"worker: {e!r}"}
                results[i] = res
                if on_result is not None:
                    if on_result(i, res) == "stop":
                        exhausted = True
            submit_more()
    return results, not_run
