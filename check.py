#!/venv/bin/python
"""Entry point of the deterministic-simulation checks for yt-project/unyt.

  check.py quick    <Cxx>        the check to run on every change
  check.py thorough <Cxx>        time-boxed deep exploration
  check.py replay   <file>       re-run a replay file in a fresh process
  check.py digests  <Cxx> <seed> <first> <n>   (internal) print run digests
  check.py show     <Cxx> <seed> <run>         print one run (debugging)

Exit 0: property held on everything explored (known findings are printed as
KNOWN-FINDING lines).  Exit 1: "VIOLATION property=<id> replay=<path>".
Exit 2: the harness itself failed (timeout, crashed child, nondeterminism).
"""

import json
import os
import subprocess
import sys
import time

HERE = os.path.dirname(os.path.abspath(__file__))
sys.path.insert(0, HERE)

from unytsim import core  # noqa: E402

core.ensure_env()

from unytsim import evidence, minimise, runner  # noqa: E402

# quick tier: a FIXED number of runs (what an idle 16-core machine does in about a minute), so that what a
# quick check explores does not depend on how busy the machine is; quick_budget is only a safety cap.
PROFILES = {
    "C12": {"level": "exploration", "quick_runs": 1800, "quick_budget": 420, "thorough_budget": 900,
            "selftest_quick": 48, "selftest_thorough": 256, "timeout": 120},
    "C13": {"level": "exploration", "quick_runs": 1500, "quick_budget": 420, "thorough_budget": 900,
            "selftest_quick": 48, "selftest_thorough": 256, "timeout": 120},
    "C18": {"level": "fault_enumeration", "quick_runs": 17800, "quick_budget": 420, "thorough_budget": 900,
            "selftest_quick": 48, "selftest_thorough": 256, "timeout": 120},
    "C11": {"level": "exploration", "quick_runs": 7000, "quick_budget": 420, "thorough_budget": 900,
            "selftest_quick": 48, "selftest_thorough": 256, "timeout": 120},
}

KNOWN_FILE = os.path.join(HERE, "known_findings.json")
REPLAY_DIR = os.path.join(os.environ.get("VERIF_OUT") or HERE, "replays")


def load_known(prop):
    if not os.path.exists(KNOWN_FILE):
        return []
    with open(KNOWN_FILE) as f:
        data = json.load(f)
    return [e for e in data.get("findings", []) if e.get("property") == prop]


def specs_for(prop, seed, first, n):
    return [{"prop": prop, "seed": seed, "run": first + i} for i in range(n)]


def digests_of(prop, seed, first, n, workers):
    res, _ = runner.run_batch(specs_for(prop, seed, first, n), workers=workers)
    out = {}
    for i in range(n):
        r = res.get(i, {"harness_error": "missing"})
        out[first + i] = r.get("digest") or ("HE:" + r.get("harness_error", "?")[:200])
    return out


def selftest_determinism(prop, seed, n, log):
    """Same PRNG value twice at two worker counts, and once more in a fresh
    interpreter under another PYTHONHASHSEED; digests must be equal."""
    t0 = time.monotonic()
    a = digests_of(prop, seed, 0, n, 16)
    b = digests_of(prop, seed, 0, n, 5)
    env = dict(os.environ)
    env["UNYTSIM_HASHSEED"] = "1"
    env.pop("UNYTSIM_REEXEC", None)
    env.pop("PYTHONHASHSEED", None)
    p = subprocess.run([sys.executable, os.path.abspath(__file__), "digests", prop, str(seed), "0", str(n)],
                       env=env, capture_output=True, text=True, timeout=900)
    c = {}
    for line in p.stdout.splitlines():
        if line.startswith("DIGESTS "):
            c = {int(k): v for k, v in json.loads(line[8:]).items()}
    bad = []
    for i in range(n):
        if not (a.get(i) == b.get(i) == c.get(i)) or str(a.get(i)).startswith("HE:"):
            bad.append((i, a.get(i), b.get(i), c.get(i)))
    info = {"runs": n, "executions_per_run": 3, "worker_counts": [16, 5], "hash_seeds": ["0", "1"],
            "diverged": len(bad), "wall_s": round(time.monotonic() - t0, 1)}
    if bad:
        log(f"DETERMINISM SELF-TEST FAILED for {prop}: {bad[:5]}")
        if p.returncode != 0:
            log(p.stderr[-2000:])
    return info, bad


def write_replay(prop, res, ops, cfg, violation, mstats):
    os.makedirs(REPLAY_DIR, exist_ok=True)
    name = f"{prop}-{core.digest(violation['sig'])}.json"
    path = os.path.join(REPLAY_DIR, name)
    doc = {
        "property": prop, "seed": res["seed"], "run": res["run"], "config": cfg, "ops": ops,
        "violation": {"oracle": violation["oracle"], "signature": violation["sig"], "step": violation["step"],
                      "detail": violation["detail"]},
        "minimisation": mstats,
        "how_to_replay": f"/venv/bin/python {HERE}/check.py replay {path}",
    }
    with open(path, "w") as f:
        f.write(core.canon(doc))
    return path


def cmd_replay(path):
    with open(path) as f:
        doc = json.load(f)
    prop = doc["property"]
    core.import_unyt()
    spec = {"prop": prop, "seed": doc["seed"], "run": doc["run"], "ops": doc["ops"], "cfg": doc["config"]}
    res = runner.run_one(spec)
    if "harness_error" in res:
        print("HARNESS-ERROR", res["harness_error"])
        return 2
    want = doc["violation"]["signature"]
    for v in res["violations"]:
        if v["sig"] == want:
            print(json.dumps({"reproduced": want, "step": v["step"], "detail": v["detail"]}, indent=1,
                             ensure_ascii=False, default=str))
            print(f"VIOLATION property={prop} replay={path}")
            return 1
    others = [v["sig"] for v in res["violations"]]
    print(f"replay of {path}: signature {want!r} did not fire (fired: {others})")
    if others:
        print(f"VIOLATION property={prop} replay={path}")
        return 1
    return 0


def replay_known(prop, known, log):
    """Each listed known finding is replayed: KNOWN-FINDING if it still
    reproduces.  Entries with status fixed:* suppress nothing."""
    sigs = {}
    for e in known:
        if not str(e.get("status", "")).startswith("known"):
            continue
        path = os.path.join(HERE, e["replay"])
        still = None
        try:
            with open(path) as f:
                doc = json.load(f)
            spec = {"prop": prop, "seed": doc["seed"], "run": doc["run"], "ops": doc["ops"], "cfg": doc["config"]}
            res = runner.run_one(spec)
            still = any(v["sig"] == e["signature"] for v in res.get("violations", []))
        except Exception as ex:  # a broken replay file must not hide the finding
            log(f"note: replay file of known finding unreadable: {ex!r}")
        if still is False:
            log(f"note: known finding no longer reproduces: property={prop} {e['what']}")
        else:
            print(f"KNOWN-FINDING: property={prop} {e['what']}")
        sigs[e["signature"]] = e
    return sigs


def replay_fixed(prop, known, known_sigs, log):
    """Regression inputs: the minimised replay of every repaired defect
    ('fixed: <commit>' entries suppress nothing).  If one of them violates
    the property again, that is a violation like any other."""
    back = []
    n = 0
    for e in known:
        if not str(e.get("status", "")).startswith("fixed"):
            continue
        path = os.path.join(HERE, e["replay"])
        try:
            with open(path) as f:
                doc = json.load(f)
        except Exception as ex:
            raise core.HarnessError(f"regression replay file unreadable: {path}: {ex!r}")
        spec = {"prop": prop, "seed": doc["seed"], "run": doc["run"], "ops": doc["ops"], "cfg": doc["config"]}
        res = runner.run_one(spec)
        if "harness_error" in res:
            raise core.HarnessError(f"regression replay {path}: {res['harness_error']}")
        n += 1
        fired = [v for v in res.get("violations", []) if v["sig"] not in known_sigs]
        if fired:
            log(f"regression: repaired defect is back ({e['status']}): {e['what'][:200]} -> {fired[0]['sig']}")
            back.append((path, fired[0]))
    return n, back


def cmd_check(tier, prop):
    t_start = time.monotonic()
    prof = PROFILES[prop]
    seed = int(os.environ.get("VERIF_SEED", "0") or 0)
    os.environ["UNYTSIM_TIER"] = tier  # read by the generators (e.g. share of real new-interpreter restarts in C11)
    core.import_unyt()
    lines = []

    def log(msg):
        print(msg, flush=True)
        lines.append(msg)

    log(f"check {tier} {prop}: VERIF_SEED={seed} unyt={core.unyt_src()} PYTHONHASHSEED={os.environ.get('PYTHONHASHSEED')}")
    known = load_known(prop)
    known_sigs = replay_known(prop, known, log)

    n_fixed, regressions = replay_fixed(prop, known, known_sigs, log)
    log(f"regression replays of repaired defects: {n_fixed} run, {len(regressions)} violating")

    n_self = prof["selftest_quick"] if tier == "quick" else prof["selftest_thorough"]
    st_info, st_bad = selftest_determinism(prop, seed, n_self, log)
    if st_bad:
        evidence.write(prop, tier, seed, prof["level"], None, st_info, time.monotonic() - t_start,
                       error="determinism self-test failed")
        return 2

    agg = evidence.Aggregate(prop)
    budget = prof["quick_budget"] if tier == "quick" else int(os.environ.get("VERIF_BUDGET", prof["thorough_budget"]))
    n_runs = prof["quick_runs"] if tier == "quick" else 10_000_000
    if prop == "C18" and tier == "quick":
        # the quick tier visits every cell of the fault grid once as the first call of a run: the grid is generated
        # from the live ufunc / handler tables, so its size is read, not assumed
        from unytsim import c18sim as _c18

        n_runs = max(n_runs, len(_c18.grid()) + 64)
    fails = {}
    harness_errors = []

    def on_result(i, res):
        if "harness_error" in res:
            harness_errors.append(res)
            return "stop" if len(harness_errors) > 5 else None
        agg.add(res)
        for v in res["violations"]:
            fails.setdefault(v["sig"], (res, v))
        if os.environ.get("VERIF_STOP_ON_VIOLATION") and any(s not in known_sigs for s in fails):
            return "stop"
        return None

    t0 = time.monotonic()
    first = n_self  # the self-test already covered runs [0, n_self)
    _, not_run = runner.run_batch(specs_for(prop, seed, first, n_runs), timeout=prof["timeout"], budget_s=budget,
                                  on_result=on_result)
    if prop in ("C12", "C18") and not (os.environ.get("VERIF_STOP_ON_VIOLATION") and any(s not in known_sigs for s in fails)):
        # systematic part - C12: (warm-up, edit, probe, fault, lru capacity) combinations of a small catalogue;
        # C18: every in-place template x curated unit pairs x dtype x shape x view.
        # quick = a seeded sample, thorough = all of them
        import random

        if prop == "C12":
            from unytsim import regsim

            total, nquick = regsim.SWEEP_ALL, 300
        else:
            from unytsim import c18sim

            total, nquick = c18sim.sweep_total(), 5000
        if tier == "quick" and prop == "C12":
            # one-edit catalogue and two-edit catalogue sampled separately, so that the first keeps its share
            rs = random.Random(f"{seed}:{prop}:sweep")
            idxs = sorted(rs.sample(range(regsim.SWEEP_TOTAL), nquick))
            idxs += sorted(rs.sample(range(regsim.SWEEP_TOTAL, regsim.SWEEP_ALL), 200))
        elif tier == "quick":
            idxs = sorted(random.Random(f"{seed}:{prop}:sweep").sample(range(total), nquick))
        else:
            idxs = list(range(total))
        sweep_specs = [{"prop": prop, "seed": seed, "run": 10_000_000 + i, "sweep": i} for i in idxs]
        _, nr2 = runner.run_batch(sweep_specs, timeout=prof["timeout"], budget_s=(240 if tier == "quick" else 3600),
                                  on_result=on_result)
        not_run += nr2
        log(f"{prop} sweep: {len(idxs) - nr2} of {total} systematic cases run")
    batch_wall = time.monotonic() - t0
    if harness_errors:
        for he in harness_errors[:3]:
            log("HARNESS-ERROR " + str(he.get("harness_error"))[-3000:])
        evidence.write(prop, tier, seed, prof["level"], agg, st_info, time.monotonic() - t_start,
                       error=f"{len(harness_errors)} harness errors")
        return 2

    # violations: minimise one run per distinct signature, write replay files
    new = []
    minim = []
    for sig, (res, v) in sorted(fails.items()):
        if sig in known_sigs:
            continue
        if len(new) >= 8:
            log(f"(further signature not minimised: {sig})")
            continue
        ops, cfg, v2, mstats = minimise.minimise(res, v, timeout=prof["timeout"])
        sig2 = v2["sig"]
        path = write_replay(prop, res, ops, cfg, v2, mstats)
        minim.append(mstats)
        if sig2 in known_sigs:
            continue
        new.append((sig2, path, v2))
    for path, v in regressions:
        new.append((v["sig"], path, v))
    for sig, path, v in new:
        log(f"violation: {sig}  step={v['step']}  detail={json.dumps(v['detail'], ensure_ascii=False, default=str)[:600]}")
        print(f"VIOLATION property={prop} replay={path}", flush=True)
    evidence.write(prop, tier, seed, prof["level"], agg, st_info, time.monotonic() - t_start,
                   batch_wall=batch_wall, violations=len(new), known=[e["what"] for e in known_sigs.values()],
                   minimisation=minim, not_run=not_run, regression_replays=n_fixed,
                   signatures_seen=sorted(fails))
    log(f"{prop} {tier}: runs={agg.runs} steps={agg.steps} nontrivial_shapes={len(agg.shapes_nontrivial)} "
        f"violating_signatures={len(fails)} new={len(new)} wall={time.monotonic() - t_start:.0f}s")
    return 1 if new else 0


def main(argv):
    if len(argv) < 2:
        print(__doc__)
        return 2
    cmd = argv[1]
    if cmd in ("quick", "thorough"):
        return cmd_check(cmd, argv[2])
    if cmd == "replay":
        return cmd_replay(argv[2])
    if cmd == "digests":
        core.import_unyt()
        prop, seed, first, n = argv[2], int(argv[3]), int(argv[4]), int(argv[5])
        print("DIGESTS " + json.dumps(digests_of(prop, seed, first, n, 16)))
        return 0
    if cmd == "minimise":
        # minimise <Cxx> <seed> <run> [signature substring] [outdir]
        core.import_unyt()
        prop = argv[2]
        res = runner.run_one({"prop": prop, "seed": int(argv[3]), "run": int(argv[4])})
        if "harness_error" in res:
            print("HARNESS-ERROR", res["harness_error"])
            return 2
        want = argv[5] if len(argv) > 5 else ""
        vs = [v for v in res["violations"] if want in v["sig"]]
        if not vs:
            print("no such violation; fired:", [v["sig"] for v in res["violations"]])
            return 0
        ops, cfg, v2, mstats = minimise.minimise(res, vs[0])
        global REPLAY_DIR
        if len(argv) > 6:
            REPLAY_DIR = os.path.join(HERE, argv[6])
        path = write_replay(prop, res, ops, cfg, v2, mstats)
        print(v2["sig"], mstats)
        for o in ops:
            print("   ", json.dumps(o, ensure_ascii=False))
        print(f"VIOLATION property={prop} replay={path}")
        return 1
    if cmd == "show":
        core.import_unyt()
        res = runner.run_one({"prop": argv[2], "seed": int(argv[3]), "run": int(argv[4])})
        print(json.dumps(res, indent=1, ensure_ascii=False, default=str))
        return 0
    print(__doc__)
    return 2


if __name__ == "__main__":
    try:
        rc = main(sys.argv)
    except core.HarnessError as e:
        print("HARNESS-ERROR", e)
        rc = 2
    sys.exit(rc)
