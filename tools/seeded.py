#!/venv/bin/python
"""Confirm a seeded change and run the registered quick checks against it.

  seeded.py <source dir with patch.diff, demo.py, meta.json> <id> [props...]

Protocol (all against /repo itself, undone afterwards):
  apply patch -> demo must FAIL -> baseline suite must still pass ->
  quick check of the target property (and any others given) -> undo ->
  demo must PASS.  Results go to /verif/seeded/<id>/meta.json.
"""
import json, os, shutil, subprocess, sys, time

src, sid = sys.argv[1], sys.argv[2]
dst = f"/verif/seeded/{sid}"
os.makedirs(dst, exist_ok=True)
for f in ("patch.diff", "demo.py", "meta.json"):
    if os.path.exists(os.path.join(src, f)) and os.path.abspath(src) != os.path.abspath(dst):
        shutil.copy(os.path.join(src, f), os.path.join(dst, f if f != "meta.json" else "meta_agent.json"))
agent = json.load(open(os.path.join(dst, "meta_agent.json"))) if os.path.exists(os.path.join(dst, "meta_agent.json")) else {}
props = sys.argv[3:] or [agent.get("property")]

def sh(cmd, **kw):
    return subprocess.run(cmd, shell=True, capture_output=True, text=True, **kw)

def demo():
    p = sh(f"cd /repo && PYTHONPATH=/repo /venv/bin/python {dst}/demo.py")
    return p.returncode, (p.stdout + p.stderr)[-400:]

assert sh("git -C /repo status --porcelain").stdout.strip() == "", "/repo not clean"
log = {"commands": []}
ap = sh(f"git -C /repo apply {dst}/patch.diff")
if ap.returncode != 0:
    ap = sh(f"git -C /repo apply --3way {dst}/patch.diff")
    log["applied_with_3way"] = True
log["apply_rc"] = ap.returncode
log["apply_err"] = ap.stderr[-300:]
res = {}
try:
    if ap.returncode == 0:
        rc, out = demo()
        log["demo_with_change"] = {"rc": rc, "tail": out}
        b = sh("/venv/bin/python /verif/tools/baseline.py")
        log["baseline_with_change"] = b.stdout.strip().splitlines()[-1] if b.stdout.strip() else b.stderr[-200:]
        log["baseline_ok"] = b.returncode == 0
        for p in props:
            t = time.time()
            env = dict(os.environ, VERIF_STOP_ON_VIOLATION="1")
            c = subprocess.run(f"cd /verif && /venv/bin/python check.py quick {p}", shell=True, capture_output=True, text=True, env=env)
            lines = [l for l in c.stdout.splitlines() if l.startswith(("VIOLATION", "violation:", "KNOWN", "HARNESS")) or " quick:" in l]
            res[p] = {"rc": c.returncode, "wall_s": round(time.time() - t), "lines": [l[:400] for l in lines[:8]]}
finally:
    sh("git -C /repo checkout -- . && git -C /repo clean -fdq unyt")
rc, out = demo()
log["demo_without_change"] = {"rc": rc, "tail": out}
meta = {
    "id": sid, "property": agent.get("property"), "summary": agent.get("summary"),
    "needs_to_manifest": agent.get("needs_to_manifest"), "files_touched": agent.get("files_touched"),
    "confirmed": {
        "demo_fails_with_change": log.get("demo_with_change", {}).get("rc", 0) != 0,
        "demo_passes_without_change": rc == 0,
        "existing_suite_still_passes": log.get("baseline_ok"),
    },
    "checks_run": res, "caught_by": [p for p, r in res.items() if r["rc"] == 1],
    "what_was_run": "tools/seeded.py: git -C /repo apply patch.diff; demo.py; tools/baseline.py; check.py quick <prop> (VERIF_STOP_ON_VIOLATION=1); git -C /repo checkout -- .; demo.py",
    "log": log,
}
json.dump(meta, open(os.path.join(dst, "meta.json"), "w"), indent=1)
print(sid, "confirmed:", meta["confirmed"], "caught_by:", meta["caught_by"], {p: (r["rc"], r["wall_s"]) for p, r in res.items()})
