#!/venv/bin/python
"""Confirm a seeded change and run the registered quick checks against it.

  seeded.py [--in-repo] <source dir with patch.diff, demo.py, meta.json> <id> [props...]

Protocol:
  apply patch -> demo must FAIL -> baseline suite must still pass ->
  quick check of the target property (and any others given) -> undo ->
  demo must PASS.  Results go to /verif/seeded/<id>/meta.json.

Default mode works on a scratch copy of /repo's working tree under /dev/shm
(removed afterwards) with UNYT_SRC pointing at it, so that several seeded
changes can be tried in parallel and a background soak that reads /repo is
not disturbed.  --in-repo is the literal protocol: `git -C /repo apply`,
run, `git -C /repo checkout -- .`.  In both modes the checks write their
evidence and replay files to a scratch VERIF_OUT, never to /verif/evidence.
"""
import json, os, shutil, subprocess, sys, time

args = sys.argv[1:]
in_repo = False
if args and args[0] == "--in-repo":
    in_repo = True
    args = args[1:]
src, sid = args[0], args[1]
dst = f"/verif/seeded/{sid}"
os.makedirs(dst, exist_ok=True)
for f in ("patch.diff", "demo.py", "meta.json"):
    if os.path.exists(os.path.join(src, f)) and os.path.abspath(src) != os.path.abspath(dst):
        shutil.copy(os.path.join(src, f), os.path.join(dst, f if f != "meta.json" else "meta_agent.json"))
agent = json.load(open(os.path.join(dst, "meta_agent.json"))) if os.path.exists(os.path.join(dst, "meta_agent.json")) else {}
props = args[2:] or [agent.get("property")]


def sh(cmd, **kw):
    return subprocess.run(cmd, shell=True, capture_output=True, text=True, **kw)


def demo(tree):
    p = sh(f"cd {tree} && PYTHONPATH={tree} /venv/bin/python {dst}/demo.py", timeout=600)
    return p.returncode, (p.stdout + p.stderr)[-400:]


out_dir = f"/dev/shm/seeded-out-{sid}"
shutil.rmtree(out_dir, ignore_errors=True)
log = {"mode": "in-repo" if in_repo else "scratch copy of /repo working tree + UNYT_SRC"}
if in_repo:
    assert sh("git -C /repo status --porcelain").stdout.strip() == "", "/repo not clean"
    tree = "/repo"
    ap = sh(f"git -C /repo apply {dst}/patch.diff")
else:
    tree = f"/dev/shm/seeded-tree-{sid}"
    shutil.rmtree(tree, ignore_errors=True)
    sh(f"rsync -a --exclude .git --exclude __pycache__ /repo/ {tree}/")
    ap = sh(f"cd {tree} && git apply -p1 {dst}/patch.diff")
log["apply_rc"] = ap.returncode
log["apply_err"] = ap.stderr[-300:]
res = {}
try:
    if ap.returncode == 0:
        rc, out = demo(tree)
        log["demo_with_change"] = {"rc": rc, "tail": out}
        b = sh(f"/venv/bin/python /verif/tools/baseline.py {tree}")
        log["baseline_with_change"] = b.stdout.strip().splitlines()[-1] if b.stdout.strip() else b.stderr[-200:]
        log["baseline_ok"] = b.returncode == 0
        for p in props:
            t = time.time()
            env = dict(os.environ, VERIF_STOP_ON_VIOLATION="1", VERIF_OUT=out_dir, UNYT_SRC=tree)
            c = subprocess.run(f"cd /verif && /venv/bin/python check.py quick {p}", shell=True, capture_output=True,
                               text=True, env=env)
            lines = [l for l in c.stdout.splitlines()
                     if l.startswith(("VIOLATION", "violation:", "HARNESS", "regression:")) or " quick:" in l]
            res[p] = {"rc": c.returncode, "wall_s": round(time.time() - t), "lines": [l[:400] for l in lines[:8]]}
            if c.returncode == 1:
                for l in c.stdout.splitlines():
                    if l.startswith("VIOLATION") and "replay=" in l:
                        rp = l.split("replay=")[1].strip()
                        if os.path.exists(rp):
                            shutil.copy(rp, os.path.join(dst, f"caught-{p}.json"))
                        break
finally:
    if in_repo:
        sh("git -C /repo checkout -- . && git -C /repo clean -fdq unyt")
    else:
        shutil.rmtree(tree, ignore_errors=True)
    shutil.rmtree(out_dir, ignore_errors=True)
rc, out = demo("/repo")
log["demo_without_change"] = {"rc": rc, "tail": out}
meta = {
    "id": sid, "property": agent.get("property"), "summary": agent.get("summary"),
    "needs_to_manifest": agent.get("needs_to_manifest"), "files_touched": agent.get("files_touched"),
    "confirmed": {
        "demo_fails_with_change": log.get("demo_with_change", {}).get("rc", 0) != 0,
        "demo_passes_without_change": rc == 0,
        "existing_suite_still_passes": log.get("baseline_ok"),
    },
    "checks_run": res, "caught_by": [p for p, r in res.items() if r["rc"] == 1],
    "what_was_run": "tools/seeded.py: apply patch.diff (" + log["mode"] + "); demo.py; tools/baseline.py (all 652 "
                    "stable-pass tests must pass); check.py quick <prop> (VERIF_STOP_ON_VIOLATION=1); undo; demo.py",
    "log": log,
}
json.dump(meta, open(os.path.join(dst, "meta.json"), "w"), indent=1)
print(sid, "confirmed:", meta["confirmed"], "caught_by:", meta["caught_by"],
      {p: (r["rc"], r["wall_s"]) for p, r in res.items()})
