#!/venv/bin/python
"""Re-run every kept seeded change against the CURRENT /repo and the CURRENT
checks and write seeded/SWEEP.json.

  seeded_sweep.py [--full] [id ...]      (default: every directory under seeded/)

Default (re-check): the confirmation recorded in seeded/<id>/meta.json (demo
fails with / passes without the change, pinned suite still passes) is kept;
what is re-done is: the patch must still apply to the current tree, the demo
must still fail with it, and the quick check(s) that caught it must still
report a violation (VERIF_STOP_ON_VIOLATION=1).  --full repeats the whole
protocol of tools/seeded.py instead (adds the pinned suite: ~1 min more each).
"""
import json
import os
import shutil
import subprocess
import sys

HERE = "/verif"
args = sys.argv[1:]
full = "--full" in args
args = [a for a in args if a != "--full"]
ids = args or sorted(d for d in os.listdir(f"{HERE}/seeded") if os.path.isdir(f"{HERE}/seeded/{d}"))
rows = []


def sh(cmd, **kw):
    return subprocess.run(cmd, shell=True, capture_output=True, text=True, **kw)


for sid in ids:
    d = f"{HERE}/seeded/{sid}"
    if not os.path.exists(f"{d}/patch.diff"):
        continue
    meta = json.load(open(f"{d}/meta.json"))
    props = meta.get("caught_by") or [meta.get("property")]
    if full:
        subprocess.run([f"{HERE}/tools/seeded.py", d, sid] + props, capture_output=True, text=True)
        m = json.load(open(f"{d}/meta.json"))
        row = {"id": sid, "property": m.get("property"), "applies": m["log"].get("apply_rc") == 0,
               "confirmed": m["confirmed"], "caught_by": m["caught_by"]}
        sig = [line.split()[1] for r in m["checks_run"].values() for line in r["lines"] if line.startswith("violation:")]
        row["first_signature"] = sig[:1]
    else:
        tree = f"/dev/shm/sweep-tree-{sid}"
        out = f"/dev/shm/sweep-out-{sid}"
        shutil.rmtree(tree, ignore_errors=True)
        shutil.rmtree(out, ignore_errors=True)
        sh(f"rsync -a --exclude .git --exclude __pycache__ /repo/ {tree}/")
        ap = sh(f"cd {tree} && git apply -p1 {d}/patch.diff")
        row = {"id": sid, "property": meta.get("property"), "applies": ap.returncode == 0, "caught_by": [], "first_signature": []}
        if ap.returncode == 0:
            dm = sh(f"cd {tree} && PYTHONPATH={tree} /venv/bin/python {d}/demo.py", timeout=600)
            row["demo_fails_with_change"] = dm.returncode != 0
            for p in props:
                env = dict(os.environ, VERIF_STOP_ON_VIOLATION="1", VERIF_OUT=out, UNYT_SRC=tree)
                c = subprocess.run(f"cd {HERE} && /venv/bin/python check.py quick {p}", shell=True, capture_output=True,
                                   text=True, env=env)
                if c.returncode == 1:
                    row["caught_by"].append(p)
                    for line in c.stdout.splitlines():
                        if line.startswith(("violation:", "regression:")):
                            row["first_signature"].append(line.split()[1] if line.startswith("violation:") else "regression-replay")
                            break
                elif c.returncode != 0:
                    row.setdefault("harness_error", []).append(p)
        shutil.rmtree(tree, ignore_errors=True)
        shutil.rmtree(out, ignore_errors=True)
    rows.append(row)
    print(row, flush=True)
    json.dump(rows, open(os.environ.get("SWEEP_OUT") or f"{HERE}/seeded/SWEEP.json", "w"), indent=1)
bad = [r["id"] for r in rows if not r["applies"] or not r["caught_by"] or r.get("demo_fails_with_change") is False]
print(f"{len(rows)} seeded changes, {len(bad)} needing attention: {bad}")
sys.exit(1 if bad else 0)
