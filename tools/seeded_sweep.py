#!/venv/bin/python
"""Re-run the protocol of tools/seeded.py for every kept seeded change against
the CURRENT /repo and the CURRENT checks, and write seeded/SWEEP.json:
per change, does the patch still apply, does the demo still fail with it /
pass without it, does the pinned suite still pass, and which quick check
reports it (with the signature of the first violation).

  seeded_sweep.py [id ...]      (default: every directory under seeded/)
"""
import json
import os
import subprocess
import sys

HERE = "/verif"
ids = sys.argv[1:] or sorted(d for d in os.listdir(f"{HERE}/seeded") if os.path.isdir(f"{HERE}/seeded/{d}"))
rows = []
for sid in ids:
    d = f"{HERE}/seeded/{sid}"
    if not os.path.exists(f"{d}/patch.diff"):
        continue
    meta = json.load(open(f"{d}/meta.json"))
    props = meta.get("caught_by") or [meta.get("property")]
    p = subprocess.run([f"{HERE}/tools/seeded.py", d, sid] + props, capture_output=True, text=True)
    m = json.load(open(f"{d}/meta.json"))
    sig = []
    for pr, r in m["checks_run"].items():
        for line in r["lines"]:
            if line.startswith("violation:"):
                sig.append(line.split()[1])
                break
    row = {"id": sid, "property": m.get("property"), "confirmed": m["confirmed"], "caught_by": m["caught_by"],
           "wall_s": {k: v["wall_s"] for k, v in m["checks_run"].items()}, "first_signature": sig[:2]}
    rows.append(row)
    print(row, flush=True)
    json.dump(rows, open(f"{HERE}/seeded/SWEEP.json", "w"), indent=1)
missed = [r["id"] for r in rows if not r["caught_by"] or not all(r["confirmed"].values())]
print(f"{len(rows)} seeded changes, {len(missed)} not confirmed-and-caught: {missed}")
sys.exit(1 if missed else 0)
