#!/venv/bin/python
"""Run the repository's pinned suite (guard off) and compare with BASELINE.json:
every test in stable_pass must pass.  Usage: baseline.py [repo dir]"""
import json, os, subprocess, sys, tempfile
import xml.etree.ElementTree as ET

repo = sys.argv[1] if len(sys.argv) > 1 else "/repo"
base = json.load(open("/root/.vp/BASELINE.json"))
want = set(base["stable_pass"])
fd, xml = tempfile.mkstemp(suffix=".xml", dir="/dev/shm")
os.close(fd)
env = dict(os.environ)
env.pop("UNYT_VERIF", None)
p = subprocess.run([ "/venv/bin/python", "-m", "pytest", "-ra", "-q", "-p", "no:cacheprovider", "--timeout=900",
                    "--continue-on-collection-errors", f"--junitxml={xml}", "-n", "8"], cwd=repo, env=env,
                   capture_output=True, text=True)
passed = set()
failed = set()
for tc in ET.parse(xml).getroot().iter("testcase"):
    name = f"{tc.get('classname')}::{tc.get('name')}"
    bad = any(c.tag in ("failure", "error") for c in tc)
    skipped = any(c.tag == "skipped" for c in tc)
    if bad:
        failed.add(name)
    elif not skipped:
        passed.add(name)
os.unlink(xml)
missing = sorted(want - passed)
print(f"baseline: stable_pass={len(want)} passed_now={len(passed)} failed_now={len(failed)} stable_pass_not_passing={len(missing)}")
for m in missing[:20]:
    print("  NOT PASSING:", m)
sys.exit(1 if missing else 0)
