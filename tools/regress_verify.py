#!/venv/bin/python
"""Sensitivity of the findings corpus: every 'fixed: <commit>' entry of
known_findings.json must (a) be silent on the current tree and (b) fire its
recorded signature again on a scratch copy of /repo with that one commit
reverted.  (b) is what makes the replay file a regression input rather than a
file that happens to pass.

  regress_verify.py            -> table on stdout, JSON to seeded/regress_verify.json
"""
import json, os, shutil, subprocess, sys

HERE = "/verif"
known = json.load(open(f"{HERE}/known_findings.json"))["findings"]


def sh(cmd, **kw):
    return subprocess.run(cmd, shell=True, capture_output=True, text=True, **kw)


by_commit = {}
for e in known:
    st = e["status"]
    if st.startswith("fixed:"):
        by_commit.setdefault(st.split()[1], []).append(e)

rows = []
for commit, entries in by_commit.items():
    tree = f"/dev/shm/regress-{commit}"
    shutil.rmtree(tree, ignore_errors=True)
    sh(f"rsync -a --exclude .git --exclude __pycache__ /repo/ {tree}/")
    rv = sh(f"git -C /repo show {commit} -- unyt | (cd {tree} && git apply -R -p1)")
    how = "reverse-applied on the current tree"
    # a later repair may have removed what an older replay needs in order to fire (the float64 table entries of
    # 647f950's replay were turned into plain floats by 6e4ac32): such entries name the commits to revert with it
    for extra in sorted({c for e in entries for c in e.get("also_revert", [])}):
        rx = sh(f"git -C /repo show {extra} -- unyt | (cd {tree} && git apply -R -p1)")
        how += f" (+ {extra} reverted" + ("" if rx.returncode == 0 else ", FAILED") + ")"
    if rv.returncode != 0:
        shutil.rmtree(tree, ignore_errors=True)
        os.makedirs(tree)
        sh(f"git -C /repo archive {commit}^ | tar -x -C {tree}")
        how = "tree of the fix commit's parent"
    for e in entries:
        env = dict(os.environ, UNYT_SRC=tree, VERIF_OUT="/dev/shm/regress-out")
        old = subprocess.run(f"cd {HERE} && /venv/bin/python check.py replay {e['replay']}", shell=True,
                             capture_output=True, text=True, env=env)
        env = dict(os.environ, VERIF_OUT="/dev/shm/regress-out")
        new = subprocess.run(f"cd {HERE} && /venv/bin/python check.py replay {e['replay']}", shell=True,
                             capture_output=True, text=True, env=env)
        fired = '"reproduced"' in old.stdout
        rows.append({"property": e["property"], "commit": commit, "replay": e["replay"], "signature": e["signature"],
                     "without_fix": "fires" if fired else ("other violation" if old.returncode == 1 else "silent"),
                     "with_fix": "silent" if new.returncode == 0 else f"rc={new.returncode}", "how": how})
        print(rows[-1]["property"], commit, rows[-1]["without_fix"], "/", rows[-1]["with_fix"], e["replay"], f"({how})",
              flush=True)
    shutil.rmtree(tree, ignore_errors=True)
shutil.rmtree("/dev/shm/regress-out", ignore_errors=True)
os.makedirs(f"{HERE}/seeded", exist_ok=True)
json.dump(rows, open(f"{HERE}/seeded/regress_verify.json", "w"), indent=1)
bad = [r for r in rows if r["without_fix"] != "fires" or r["with_fix"] != "silent"]
print(f"{len(rows)} regression replays, {len(bad)} not as expected")
sys.exit(1 if bad else 0)
